"""C10 worker: a trainable (zero-order-hold) delay set to d behaves like a static delay of d (region-exhaustive over d)."""
import numpy as onp

U = 1.0 / 64.0


def harnesses(tier, seed=0):
    out = []
    i = 0
    for ra in (8, 16):
        for rb in (4, 8, 16):
            for w in (1, 2, 3):
                for (lo, hi) in ((0, 8), (1, 5), (0, 3)):
                    for skip in (False, True):
                        i += 1
                        if tier == "quick" and (i + seed) % 5 != 0:  # stride coprime to the inner loop sizes (2, 3)
                            continue
                        out.append(dict(name=f"tr.{ra}-{rb}.w{w}.[{lo},{hi}]{'.skip' if skip else ''}", ra=ra, rb=rb, window=w, lo=lo, hi=hi, skip=skip, way=("dist", "init_delays", "params")[len(out) % 3]))
    return out


def _static_episode(V, edge_conn, d, skip):
    """the same system with a fixed communication delay d: vertices unchanged, edge a->b recomputed independently"""
    a, b = V["a"], V["b"]
    lst, prev = [], 0.0
    for (i, s, e) in a:
        r = max(e + d, prev)
        prev = r
        tgt = next((j for (j, st, _) in b if (st > r if skip else st >= r)), -1)
        lst.append((i, tgt, r))
    return dict(vertices=V, edges={("a", "b"): lst})


def c10_task(arg):
    from vf.common import import_rex

    import_rex()
    import distrax
    import jax
    import jax.numpy as jnp
    from flax import struct
    from flax.core import FrozenDict

    from rex.artificial import generate_graphs
    from rex.base import Base, StaticDist, TrainableDist
    from vf.compiledx import build_graph, summarize_compiled_record
    from vf.probes import classes, f32_bits, node_ids
    from vf.refcomp import RefExec, graphs_to_py

    h = arg["h"]
    out = dict(name=h["name"], instances=0, states=0, transitions=0, traces=0, violations=[], skipped=None, ties=0, regions=0)
    C = classes()
    lo, hi = h["lo"] * U, h["hi"] * U

    @struct.dataclass
    class PD(Base):
        p: jax.Array
        d: jax.Array

    class TNode(C["ProbeNode"]):
        delay_value = None  # way "init_delays": python attribute read at init time
        use_params = False

        def init_params(self, rng=None, graph_state=None):
            base = C["ProbeNode"].init_params(self, rng, graph_state)
            return PD(p=base.p, d=onp.array([0.0], dtype=onp.float32)) if self.use_params else base

        def init_delays(self, rng=None, graph_state=None):
            if self.use_params:
                return {"a": graph_state.params[self.name].d[0]}
            if self.delay_value is not None:
                return {"a": self.delay_value}
            return C["ProbeNode"].init_delays(self, rng, graph_state)

    def mk(dist_delay):
        a = TNode("a", rate=h["ra"], pid=1, xp="jnp", delay=1 * U, delay_dist=StaticDist.create(distrax.Normal(loc=1 * U, scale=0.0)))
        b = TNode("b", rate=h["rb"], pid=2, xp="jnp", delay=1 * U, delay_dist=StaticDist.create(distrax.Normal(loc=1 * U, scale=0.0)))
        b.connect(a, window=h["window"], skip=h["skip"], delay=lo, delay_dist=TrainableDist.create(delay=dist_delay, min=lo, max=hi, interp="zoh"))
        return {"a": a, "b": b}, b

    nodes, sup = mk((lo + hi) / 2)  # nominal delay != min: graphs must still be generated with the minimal delay
    ts_max = 12.0 / h["rb"] if h["rb"] <= 8 else 10.0 / h["rb"]
    graphs_raw = generate_graphs(nodes, ts_max=ts_max, rng=jax.random.PRNGKey(arg.get("seed", 0)), num_episodes=1)
    ep = graphs_to_py(graphs_raw)[0]
    V = ep["vertices"]
    # regions of d: breakpoints where a message's delayed arrival coincides with a step start
    bps = sorted({round(st - e, 9) for (_, st, _) in V["b"] for (_, _, e) in V["a"] if lo <= round(st - e, 9) <= hi} | {lo, hi})
    ds = set(bps)
    for x, y in zip(bps[:-1], bps[1:]):
        ds.add((x + y) / 2)
    inside = sorted(ds)
    outside = [lo - 2 * U, lo - U / 2, hi + U / 2, hi + 2 * U]
    out["regions"] = len(bps) - 1
    g = build_graph(nodes, sup, graphs_raw, arg.get("mode", "MCS"), True)
    ids = {"a": 1, "b": 2}
    M = g.max_steps

    def roll(gs):
        gs = g.init_record(gs, params=False, rng=True, inputs=True, state=True, output=True)
        return g.rollout(gs, carry_only=True)

    rollj = jax.jit(roll)
    way = h["way"]
    base_gs = None
    for d in inside + outside:
        dc = min(max(d, lo), hi)
        if way == "dist":
            if not (lo <= d <= hi):
                continue  # the distribution's constructor asserts alpha in [0, 1]; saturation is reachable through init_delays / params
            # the delay lives in the connection's distribution: alpha is data of the InputState -> same compiled program
            nodes["b"].inputs["a"].delay_dist = TrainableDist.create(delay=d, min=lo, max=hi, interp="zoh")
            gs = g.init(rng=jax.random.PRNGKey(1))
        elif way == "init_delays":
            nodes["b"].delay_value = d
            gs = g.init(rng=jax.random.PRNGKey(1))
        else:
            nodes["b"].use_params = True
            gs = g.init(rng=jax.random.PRNGKey(1), params={"b": PD(p=C["ProbeNode"].init_params(nodes["b"]).p, d=onp.array([d], dtype=onp.float32))})
        alpha = float(gs.inputs["b"]["a"].delay_dist.alpha)
        rp = dict(h=h, d=d, seed=arg.get("seed", 0), mode=arg.get("mode", "MCS"))
        if abs((lo + alpha * (hi - lo)) - dc) > 1e-6:
            out["violations"].append(("delay-not-set-or-not-saturated", dict(way=way, d=d, expected=dc, got=lo + alpha * (hi - lo)), rp))
            continue
        o = rollj(gs)
        jax.block_until_ready(o)
        rec = summarize_compiled_record(o.aux["record"])
        init_rng = {k: onp.asarray(v).astype(onp.uint32).tolist() for k, v in gs.rng.items()}
        stat = _static_episode(V, None, dc, h["skip"])
        rx = RefExec(stat, {("a", "b"): dict(window=h["window"], skip=h["skip"])}, ids, 0, init_rng)
        out["instances"] += 1
        out["traces"] += 1
        c = rec["b"]
        ex = [k for k, s in enumerate(c["seq"]) if s >= 0]
        errs = []
        for k in ex:
            out["transitions"] += 1
            px = rx.payload("b", k)
            w = c["inputs"]["a"]
            exp = px["windows"]["a"]
            if len(w["seq"][k]) != h["window"]:
                errs.append(("window-size", (k, len(w["seq"][k]), h["window"])))
                continue
            got_seq = [(-1 if s < 0 else s) for s in w["seq"][k]]
            exp_seq = [(-1 if s < 0 else s) for (s, _, _, _) in exp]
            if got_seq != exp_seq or [int(x) & 0xFFFFFFFF for x in w["data_h"][k]] != [x[3] for x in exp]:
                ts_k = rx.ts_start["b"][k]
                tie = h["skip"] and any(abs((e_ + dc) - ts_k) < 1e-12 for (_, _, e_) in V["a"])
                if tie:
                    out["ties"] += 1
                errs.append((("skip-tie:trainable-includes-message-arriving-exactly-at-step-start" if tie else "window-differs-from-static-twin"), (k, "d*64", d * 64, "got", got_seq, "static", exp_seq)))
                break  # later steps only differ as a consequence (state and payloads are chained hashes)
            if k < M and int(c["out_h"][k]) & 0xFFFFFFFF != px["out_h"]:
                ok_ts = all(s < 0 or (f32_bits(a_) == f32_bits(x[1]) and f32_bits(b_) == f32_bits(x[2])) for s, a_, b_, x in zip(w["seq"][k], w["ts_sent"][k], w["ts_recv"][k], exp))
                errs.append((("output-differs-from-static-twin" if ok_ts else "window-times-differ-from-static-twin"), (k, "d*64", d * 64)))
            if int(c["state_h"][k]) & 0xFFFFFFFF != px["state_before"]:
                errs.append(("state-differs-from-static-twin", (k, "d*64", d * 64)))
        out["states"] += len(ex)
        seen = set()
        for sig, det in errs:
            if sig not in seen:
                seen.add(sig)
                out["violations"].append((sig, dict(way=way, detail=det), rp))
        if len(out["violations"]) > 30:
            break
    # keep one representative per signature
    uniq, seen = [], set()
    for v in out["violations"]:
        if v[0] not in seen:
            seen.add(v[0])
            uniq.append(v)
    out["violations"] = uniq
    return out
