"""C16 reference model: node/connection configurations as plain dicts (no rex, no jax, no numpy).

A configuration is
  nodes[name]   = dict(rate, dist, delay, advance, scheduling, color, order)
  inputs[name]  = {input_name: edge}      edge = dict(inn, out, blocking, skip, dist, delay, window, jitter, input_name)
  outputs[name] = {receiver_name: edge}   (the same edge dict object as in inputs[receiver][input_name])
and a distribution is the tuple (kind, loc, scale, rng) with kind in {"Normal", "Deterministic"}.

Laws written down here (the property text, nothing more):
  * expected delay given at construction, else the 0.99 quantile of the distribution given at construction
    (default distribution Normal(0, 0)); set_delay(dist, delay) replaces exactly the arguments that are not None;
  * phase(n) = max(0, max over non-skipped inputs e of phase(e.out) + delay(e.out) + e.delay);
    a cycle of non-skipped edges upstream of n makes phase(n) an algebraic loop (LOOP);
  * info(n) = the configured values + phase + per input the connection values and phase(e.out) + delay(e.out) + e.delay,
    keyed by the name of the sending node;
  * rebuilding from infos gives the same configuration.
"""
import statistics

LOOP = "LOOP"
Z99 = statistics.NormalDist().inv_cdf(0.99)
DEFAULT_DIST = ("Normal", 0.0, 0.0, (0, 0))
NODE_CLS = "rex.node/BaseNode"

# distribution alphabet: key -> (kind, loc, scale, rng); how the real object is passed is decided in c16_real.DIST_BUILD
DISTS = {
    "D1": ("Deterministic", 1 / 64, None, (0, 0)),
    "D3": ("Deterministic", 3 / 64, None, (0, 0)),
    "N1": ("Normal", 1 / 64, 0.0, (0, 0)),
    "N3": ("Normal", 3 / 64, 1 / 2048, (0, 0)),
    "S3": ("Deterministic", 3 / 64, None, (0, 7)),  # handed over as a ready-made StaticDist carrying its own rng
}


def q99(dist):
    kind, loc, scale, _ = dist
    if kind == "Deterministic":
        return loc
    return loc + Z99 * scale


def default_init():
    return [dict(name="a", rate=16), dict(name="b", rate=8), dict(name="c", rate=4)]


class Ref:
    def __init__(self, init=None):
        self.nodes, self.inputs, self.outputs = {}, {}, {}
        for spec in init if init is not None else default_init():
            self.add_node(**spec)

    # construction ------------------------------------------------------------------------------------------
    def add_node(self, name, rate, dist=None, delay=None, advance=False, scheduling="FREQUENCY", color=None, order=None):
        d = DISTS[dist] if dist is not None else DEFAULT_DIST
        self.nodes[name] = dict(rate=rate, dist=d, delay=delay if delay is not None else q99(d), advance=advance, scheduling=scheduling, color=color, order=order)
        self.inputs[name] = {}
        self.outputs[name] = {}

    def copy(self):
        r = Ref.__new__(Ref)
        r.nodes = {n: dict(v) for n, v in self.nodes.items()}
        edges = {}
        r.inputs = {}
        for n, ins in self.inputs.items():
            r.inputs[n] = {}
            for k, e in ins.items():
                edges[id(e)] = r.inputs[n][k] = dict(e)
        r.outputs = {n: {k: edges.get(id(e)) or dict(e) for k, e in outs.items()} for n, outs in self.outputs.items()}
        return r

    # operations --------------------------------------------------------------------------------------------
    def apply(self, op):
        kind = op[0]
        if kind == "connect":
            _, x, y, blocking, skip, dist, delay = op[:7]
            extra = op[7] if len(op) > 7 and op[7] else {}
            d = DISTS[dist] if dist is not None else DEFAULT_DIST
            name = extra.get("name") or y
            e = dict(inn=x, out=y, blocking=blocking, skip=skip, dist=d, delay=delay if delay is not None else q99(d),
                     window=extra.get("window", 1), jitter=extra.get("jitter", "LATEST"), input_name=name)
            self.inputs[x][name] = e
            self.outputs[y][x] = e
        elif kind == "nset":
            _, x, dist, delay = op
            n = self.nodes[x]
            if dist is not None:
                n["dist"] = DISTS[dist]
            if delay is not None:
                n["delay"] = delay
        elif kind == "cset":
            _, x, name, dist, delay = op
            e = self.inputs[x][name]
            if dist is not None:
                e["dist"] = DISTS[dist]
            if delay is not None:
                e["delay"] = delay
        else:
            raise ValueError(op)

    # phases ------------------------------------------------------------------------------------------------
    def phases(self):
        """name -> float or LOOP. A node is LOOP iff a cycle of non-skipped connections lies upstream of it (or through
        it); every other node gets the longest expected-delay path into it."""
        senders = {n: [e["out"] for e in self.inputs[n].values() if not e["skip"]] for n in self.nodes}

        def upstream(n):  # nodes reachable from n in >= 1 step towards the senders
            seen, todo = set(), list(senders[n])
            while todo:
                m = todo.pop()
                if m not in seen:
                    seen.add(m)
                    todo.extend(senders[m])
            return seen

        up = {n: upstream(n) for n in self.nodes}
        on_cycle = {n for n in self.nodes if n in up[n]}
        loop = {n for n in self.nodes if n in on_cycle or up[n] & on_cycle}
        memo = {}

        def longest(n):  # only called on nodes whose upstream is acyclic
            if n not in memo:
                memo[n] = max([0.0] + [longest(e["out"]) + self.nodes[e["out"]]["delay"] + e["delay"]
                                       for e in self.inputs[n].values() if not e["skip"]])
            return memo[n]

        return {n: (LOOP if n in loop else longest(n)) for n in self.nodes}

    def valid_loop_chain(self, chain, end):
        """The 'Loop: n1->n2->...' text: a walk along non-skipped connections (sender -> receiver), ending at the queried
        node and long enough to contain a repeated node."""
        if not chain or chain[-1] != end or any(c not in self.nodes for c in chain):
            return False
        for u, v in zip(chain, chain[1:]):
            if not any((not e["skip"]) and e["out"] == u for e in self.inputs[v].values()):
                return False
        return len(chain) > len(set(chain))

    # observation -------------------------------------------------------------------------------------------
    def observe(self):
        ph = self.phases()
        obs = {}
        for n, nd in self.nodes.items():
            p = ph[n]
            o = dict(name=n, rate=nd["rate"], dist=nd["dist"], delay=nd["delay"], advance=nd["advance"], scheduling=nd["scheduling"],
                     color=nd["color"], order=nd["order"])
            ins, info_inputs, info_loop = {}, {}, p == LOOP
            for k, e in self.inputs[n].items():
                po = ph[e["out"]]
                cp = LOOP if po == LOOP else po + self.nodes[e["out"]]["delay"] + e["delay"]
                info_loop = info_loop or cp == LOOP
                ins[k] = dict(inn=e["inn"], out=e["out"], blocking=e["blocking"], skip=e["skip"], jitter=e["jitter"], window=e["window"],
                              dist=e["dist"], delay=e["delay"], input_name=e["input_name"], phase=cp)
                info_inputs[e["out"]] = dict(rate=self.nodes[e["out"]]["rate"], window=e["window"], blocking=e["blocking"], skip=e["skip"],
                                             jitter=e["jitter"], phase=cp, dist=e["dist"], delay=e["delay"], name=e["input_name"], output=e["out"])
            o["inputs"] = ins
            o["outputs"] = {k: dict(inn=e["inn"], out=e["out"], input_name=e["input_name"], same=self.inputs[e["inn"]].get(e["input_name"]) is e)
                            for k, e in self.outputs[n].items()}
            o["phase"] = p
            o["phase_output"] = LOOP if p == LOOP else p + nd["delay"]
            if info_loop:
                o["info"] = LOOP
            else:
                o["info"] = dict(rate=nd["rate"], advance=nd["advance"], scheduling=nd["scheduling"], phase=p, dist=nd["dist"], delay=nd["delay"],
                                 inputs=info_inputs, name=n, cls=NODE_CLS, color=nd["color"] if nd["color"] is not None else "gray", order=nd["order"])
            obs[n] = o
        return obs

    def has_loop_info(self):
        return any(o["info"] == LOOP for o in self.observe().values())

    def canon(self):
        nodes = tuple((n, nd["dist"], nd["delay"]) for n, nd in sorted(self.nodes.items()))
        edges = tuple(sorted((x, k, e["out"], e["blocking"], e["skip"], e["dist"], e["delay"], e["window"], e["jitter"])
                             for x, ins in self.inputs.items() for k, e in ins.items()))
        outs = tuple(sorted((y, k, e["inn"], e["input_name"], self.inputs[e["inn"]].get(e["input_name"]) is e)
                            for y, o in self.outputs.items() for k, e in o.items()))
        return (nodes, edges, outs)


# comparison ------------------------------------------------------------------------------------------------
# Tolerance: every explicit delay and every Deterministic / scale-0 quantile is a dyadic rational (exact in float32 and
# float64, as are their sums). The only inexact quantity is the 0.99 quantile of Normal(3/64, 1/2048), which rex computes
# with jax's float32 ndtri and this model with float64: relative error ~1e-7 on values < 1, so 1e-6 absolute is ample
# while still 4 orders of magnitude below the lattice spacing 1/64 that separates two different configurations.
TOL = 1e-6


def diff(ref, real, path=()):
    """First difference between a reference observation and a real one: None or (path, ref_value, real_value)."""
    if isinstance(ref, dict):
        if not isinstance(real, dict):
            return (path, _short(ref), _short(real))
        if set(ref) != set(real):
            return (path + ("<keys>",), sorted(map(str, ref)), sorted(map(str, real)))
        for k in ref:
            d = diff(ref[k], real[k], path + (k,))
            if d:
                return d
        return None
    if isinstance(ref, (tuple, list)):
        if not isinstance(real, (tuple, list)) or len(ref) != len(real):
            return (path, _short(ref), _short(real))
        for i, (a, b) in enumerate(zip(ref, real)):
            d = diff(a, b, path)
            if d:
                return (path, _short(ref), _short(real))
        return None
    if isinstance(ref, bool) or isinstance(real, bool) or ref is None or real is None or isinstance(ref, str) or isinstance(real, str):
        return None if (type(ref) is type(real) and ref == real) else (path, ref, real)
    if isinstance(ref, (int, float)) and isinstance(real, (int, float)):
        return None if abs(ref - real) <= TOL else (path, ref, real)
    return None if ref == real else (path, _short(ref), _short(real))


def _short(x):
    s = repr(x)
    return s if len(s) < 300 else s[:300] + "..."


def path_class(path, names):
    return ".".join(str(p) for p in path if p not in names)
