"""E1: controlled scheduler for rex.asynchronous (DESIGN.md section 3).

Real Python threads, serialised by a baton: exactly one *virtual thread* runs at a time and hands control back to the
controller at every scheduling point (task start, future operations, contended locks, sleeps, and - at granularity
G2 - line events inside a declared set of functions).  An execution is a deterministic function of the list of
choices taken at decision points (states with >= 2 enabled virtual threads).
"""
import collections
import sys
import threading
import traceback
from concurrent.futures import CancelledError


class Abort(BaseException):
    pass


class ReplayDivergence(Exception):
    pass


SCHED = None  # the scheduler of the execution currently running in this process


class VThread:
    def __init__(self, sched, name, target):
        self.sched, self.name, self.target = sched, name, target
        self.baton = threading.Semaphore(0)
        self.done = False
        self.blocked_on = None  # callable -> bool (True when it may proceed)
        self.pending = ("spawn", name)  # description of the operation it will do next
        self.exc = None
        self.tid = len(sched.threads)
        sched.threads.append(self)
        self.t = threading.Thread(target=self._run, name="v-" + name, daemon=True)
        self.t.start()

    def _run(self):
        self.baton.acquire()
        tracing = self.sched.line_targets
        try:
            if self.sched.aborting:
                raise Abort()
            if tracing:
                sys.settrace(self.sched._global_trace)
            self.target()
        except Abort:
            pass
        except BaseException as e:  # noqa
            self.exc = e
            self.exc_tb = "".join(traceback.format_exception(type(e), e, e.__traceback__))[-3000:]
        finally:
            if tracing:
                sys.settrace(None)
            self.done = True
            self.sched.ctrl.release()

    def enabled(self):
        if self.done:
            return False
        if self.blocked_on is None:
            return True
        return bool(self.blocked_on())


class Scheduler:
    """policy: 'prio' (static priorities, lower first), 'rr' (round robin at task boundaries), 'rev' (reverse rr)."""

    def __init__(self, policy="prio", prio=None, line_targets=None, max_steps=60000):
        self.threads = []
        self.ctrl = threading.Semaphore(0)
        self.current = None
        self.aborting = False
        self.policy = policy
        self.prio = prio or {}
        self.max_steps = max_steps
        self.line_targets = frozenset(line_targets or ())
        self.choices = []  # choice index taken at each decision point
        self.points = []  # (n_enabled, chosen, tids of enabled (canonical order))
        self.n_steps = 0
        self.vtime = 0.0
        self.sleepers = {}
        self.task_errors = []  # (thread name, fn name, repr(exc), traceback)
        self.stop_when = None
        self.cap_hit = False
        self.digest_fn = None  # optional: abstract state at every decision point (stateful exploration)
        self.debug = [] if __import__("os").environ.get("VERIF_DEBUG_POINTS") else None
        self.last_run = {}  # tid -> step index at which it last ran
        self.sig = []  # schedule signature: sequence of (tid) at task boundaries (for distinct-schedule counting)

    # ---- called from virtual threads ---------------------------------------------------------
    def is_vthread(self):
        th = self.current
        return th is not None and th.t.ident == threading.get_ident()

    def yield_point(self, pending=None, blocked_on=None):
        th = self.current
        if th is None or th.t.ident != threading.get_ident():
            # called from the controller (graph construction, get_record after the run): no scheduling
            if blocked_on is not None and not blocked_on():
                raise RuntimeError(f"blocking operation {pending} outside the scheduler would hang")
            return
        th.pending = pending
        th.blocked_on = blocked_on
        self.ctrl.release()
        th.baton.acquire()
        if self.aborting:
            raise Abort()
        th.blocked_on = None

    def spawn(self, name, target):
        return VThread(self, name, target)

    # ---- G2 line tracing -----------------------------------------------------------------------
    def _local_trace(self, frame, event, arg):
        if event == "line" and self.is_vthread() and not self.aborting:
            self.yield_point(("line", frame.f_code.co_name, frame.f_lineno))
        return self._local_trace

    def _global_trace(self, frame, event, arg):
        if event == "call" and frame.f_code in self.line_targets:
            return self._local_trace
        return None

    # ---- controller ------------------------------------------------------------------------------
    def _order(self, en, last):
        n = len(self.threads)
        lt = last.tid if last is not None else -1
        if self.policy == "prio":
            # priority levels, round-robin (fair) inside a level: a free-running source must not starve its peers
            # (least recently run first: a plain rotation would let b/a <-> a ping-pong starve c)
            en.sort(key=lambda t: (self.prio.get(t.name, 50), self.last_run.get(t.tid, -1), t.tid))
        else:
            if self.policy == "rr":
                en.sort(key=lambda t: (t.tid - lt - 1) % n)
            else:  # rev
                en.sort(key=lambda t: (lt - t.tid - 1) % n)
        # mid-task: the running thread stays first (switching away from it is a preemption)
        if last is not None and last in en and not (last.pending and last.pending[0] == "task_start"):
            en.remove(last)
            en.insert(0, last)
        return en

    def run(self, prefix=(), record=True):
        """Run to the end: stop_when() true / no thread enabled / step cap. Returns the list of unfinished threads."""
        last = None
        while True:
            if self.stop_when is not None and self.stop_when():
                break
            en = [t for t in self.threads if t.enabled()]
            if not en:
                if self.sleepers:
                    self.vtime = max(self.vtime, min(self.sleepers.values()))
                    continue
                break
            en = self._order(en, last)
            if len(en) > 1 and record:
                k = len(self.choices)
                c = prefix[k] if k < len(prefix) else 0
                if c >= len(en):
                    raise ReplayDivergence(f"replay divergence at decision point {k}: choice {c} but only {len(en)} enabled")
                self.choices.append(c)
                self.points.append((len(en), c, tuple(t.tid for t in en), self.digest_fn(en) if self.digest_fn is not None else None))
                if self.debug is not None:
                    self.debug.append([(t.name, _short(t.pending)) for t in en])
                th = en[c]
            else:
                th = en[0]
            if th.pending and th.pending[0] == "task_start":
                self.sig.append(th.tid)
            self.current = th
            th.baton.release()
            self.ctrl.acquire()
            self.current = None
            last = th
            self.last_run[th.tid] = self.n_steps
            self.n_steps += 1
            if self.n_steps > self.max_steps:
                self.cap_hit = True
                break
        return [t for t in self.threads if not t.done]

    def describe_blocked(self):
        out = []
        for t in self.threads:
            if not t.done:
                out.append((t.name, _short(t.pending), "enabled" if t.enabled() else "blocked"))
        return out

    def shutdown(self):
        self.aborting = True
        for t in self.threads:
            if not t.done:
                t.baton.release()
        for t in self.threads:
            t.t.join(timeout=5)


def _short(p):
    if p is None:
        return None
    return tuple(x if isinstance(x, (str, int, float)) else type(x).__name__ for x in p)


# ------------------------------------------------------------------------------------------------
# controlled primitives (same API subset that rex.asynchronous uses)
# ------------------------------------------------------------------------------------------------
class VFuture:
    def __init__(self):
        self._state = "PENDING"
        self._result = None
        self._exc = None
        self._cbs = []

    def _fire(self):
        cbs, self._cbs = self._cbs, []
        for cb in cbs:
            try:
                cb(self)
            except Abort:
                raise
            except Exception as e:  # concurrent.futures logs and swallows callback errors
                if SCHED is not None:
                    SCHED.task_errors.append(("callback", getattr(cb, "__name__", "?"), repr(e), traceback.format_exc()[-1500:]))

    def cancel(self):
        SCHED.yield_point(("fut.cancel", id(self)))
        if self._state == "FINISHED":
            return False
        if self._state == "CANCELLED":
            return True
        self._state = "CANCELLED"
        self._fire()
        return True

    def cancelled(self):
        return self._state == "CANCELLED"

    def done(self):
        return self._state != "PENDING"

    def running(self):
        return False

    def set_result(self, r):
        SCHED.yield_point(("fut.set_result", id(self)))
        if self._state != "PENDING":
            from concurrent.futures import InvalidStateError

            raise InvalidStateError(f"{self._state}: {self!r}")
        self._result = r
        self._state = "FINISHED"
        self._fire()

    def _finish(self, r=None, exc=None):
        if self._state != "PENDING":
            return
        self._result, self._exc = r, exc
        self._state = "FINISHED"
        self._fire()

    def set_exception(self, e):
        SCHED.yield_point(("fut.set_exception", id(self)))
        self._finish(exc=e)

    def add_done_callback(self, cb):
        if self._state != "PENDING":
            cb(self)
        else:
            self._cbs.append(cb)

    def result(self, timeout=None):
        if self._state == "PENDING":
            SCHED.yield_point(("fut.result", id(self)), blocked_on=lambda: self._state != "PENDING")
        if self._state == "CANCELLED":
            raise CancelledError()
        if self._exc is not None:
            raise self._exc
        return self._result

    def exception(self, timeout=None):
        if self._state == "PENDING":
            SCHED.yield_point(("fut.exception", id(self)), blocked_on=lambda: self._state != "PENDING")
        if self._state == "CANCELLED":
            raise CancelledError()
        return self._exc


class VRLock:
    def __init__(self):
        self.owner = None
        self.count = 0

    def acquire(self, blocking=True, timeout=-1):
        me = threading.get_ident()
        if SCHED is not None and SCHED.line_targets and self.owner != me:
            SCHED.yield_point(("lock.try", id(self)))  # G2: a scheduling point before every acquire
        # re-check after every hand-off: another thread may have taken the lock while this one was descheduled
        while self.owner is not None and self.owner != me:
            SCHED.yield_point(("lock", id(self)), blocked_on=lambda: self.owner is None)
        self.owner = me
        self.count += 1
        return True

    def release(self):
        self.count -= 1
        if self.count == 0:
            self.owner = None

    def __enter__(self):
        self.acquire()
        return self

    def __exit__(self, *a):
        self.release()


class VExecutor:
    """ThreadPoolExecutor(max_workers=1): FIFO queue + one worker virtual thread."""

    def __init__(self, max_workers=1, thread_name_prefix=""):
        assert max_workers == 1, "rex uses single-worker executors"
        self.q = collections.deque()
        self.name = thread_name_prefix
        self.th = SCHED.spawn(thread_name_prefix, self._loop)

    def _loop(self):
        while True:
            SCHED.yield_point(("task_start", self.name), blocked_on=lambda: len(self.q) > 0)
            f, fn, a, k = self.q.popleft()
            if f._state == "CANCELLED":
                continue
            try:
                r = fn(*a, **k)
            except Abort:
                raise
            except BaseException as e:  # noqa
                SCHED.task_errors.append((self.name, getattr(fn, "__name__", "?"), repr(e), traceback.format_exc()[-2500:]))
                f._finish(exc=e)
            else:
                f._finish(r)

    def submit(self, fn, *a, **k):
        f = VFuture()
        self.q.append((f, fn, a, k))
        return f

    def shutdown(self, wait=True, cancel_futures=False):
        pass


class VTime:
    """Replacement of the `time` module inside rex.asynchronous."""

    DELTA = 1.0 / 65536.0

    def time(self):
        SCHED.vtime += self.DELTA
        return SCHED.vtime

    def sleep(self, d):
        if d <= 0:
            return
        S = SCHED
        if not S.is_vthread():
            S.vtime += d
            return
        me = S.current
        wake = S.vtime + d
        S.sleepers[me.tid] = wake
        S.yield_point(("sleep", round(d, 6)), blocked_on=lambda: S.vtime >= wake)
        S.sleepers.pop(me.tid, None)

    def __getattr__(self, item):  # anything else (perf_counter, ...) would escape control: fail loudly
        raise AttributeError(f"rex.asynchronous used time.{item}, which the controlled clock does not model")


_PATCHED = False


def patch_rex_async():
    """Replace, by object identity, every concurrency primitive that rex.asynchronous holds as a module global."""
    global _PATCHED
    import concurrent.futures as cf
    import threading as th
    import time as real_time

    import rex.asynchronous as ra

    real = {cf.ThreadPoolExecutor: VExecutor, cf.Future: VFuture, th.RLock: VRLock, real_time: VTime()}
    seen = set()
    for name, val in list(vars(ra).items()):
        for r, v in real.items():
            if val is r:
                setattr(ra, name, v)
                seen.add(r)
    # an unexpected real primitive that we do not control is a hard error, not a pass
    suspicious = []
    for name, val in vars(ra).items():
        if val in (th.Thread, th.Lock, th.Condition, th.Event, th.Semaphore, cf.wait, cf.as_completed, cf.ProcessPoolExecutor):
            suspicious.append(name)
        if getattr(val, "__name__", None) in ("threading", "concurrent.futures", "asyncio", "queue", "multiprocessing") and hasattr(val, "__file__"):
            suspicious.append(name)
    if suspicious:
        from vf.common import HarnessError

        raise HarnessError(f"rex.asynchronous holds uncontrolled primitives: {suspicious}")
    if not _PATCHED:
        missing = [r for r in (cf.ThreadPoolExecutor, cf.Future, th.RLock, real_time) if r not in seen]
        if missing:
            from vf.common import HarnessError

            raise HarnessError(f"could not find primitives to patch in rex.asynchronous: {missing}")
    _PATCHED = True
    return ra


def new_scheduler(**kw):
    global SCHED
    SCHED = Scheduler(**kw)
    return SCHED
