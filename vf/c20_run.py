"""C20 worker: train one configuration with the real rex.ppo.train, export the policy through PPOResult.policy for the
trained result and for hand-perturbed copies of it, and compare Policy.get_action on the whole observation lattice
with (R) the numpy reference of vf.c20_ref and (F) the flax network that `train` itself used (train_state.apply_fn).

Variants (all exported through the same PPOResult code path, i.e. `res.replace(runner_state=...).policy`):
  trained : the PPOResult as returned by train
  trainedX: trained kernels x3, biases/log_std/normalisation statistics shifted (keeps the trained structure, amplifies it)
  handA   : hand-set dyadic kernels / biases / log_std, normalisation mean/var/clip and action bounds (pattern A)
  handB   : a second, different hand-set pattern (small variance -> clipping active for moderate observations)
The hand-set variants make sure a wrong layer order / activation / normalisation / bound mapping cannot hide behind the
small weights, log_std = 0 and near-identity statistics of a three-update training run.
"""
import time

import numpy as onp

from vf import c20_ref as R

VARIANTS = ("trained", "trainedX", "handA", "handB")
KEY_SEEDS = (0, 1, 12345)
EAGER_IDX = (0, 665, 1330, 333, 611, 1000)  # lattice indices evaluated one by one without jit/vmap (665 = all zeros)
MAX_VIOL_PER_CHECK = 2


# ------------------------------------------------------------------------------------------------
# reading the training-time truth out of the runner state (NOT through the PPOResult properties under test)
# ------------------------------------------------------------------------------------------------
def _np(x):
    return onp.asarray(x)


def extract_model(res):
    actor = res.runner_state.train_state.params["params"]["actor"]
    names = sorted([k for k in actor.keys() if k.startswith("Dense_")], key=lambda k: int(k.split("_")[1]))
    layers = [(_np(actor[k]["kernel"]), _np(actor[k]["bias"])) for k in names]
    aux = res.runner_state.env_state.aux
    n = aux.get("norm_obs", None)
    norm = None if n is None else dict(mean=_np(n.mean), var=_np(n.var), clip=float(_np(n.clip)))
    sc = aux["act_scaling"]
    low, high = _np(sc.low), _np(sc.high)
    if not (onp.all(low == low[0]) and onp.all(high == high[0])):
        raise AssertionError("per-environment action bounds differ: the harness assumes one action space")
    return dict(layers=layers, log_std=_np(actor["log_std"]), norm=norm, scaling=dict(low=low[0], high=high[0], squash=bool(sc.squash)))


# ------------------------------------------------------------------------------------------------
# perturbations
# ------------------------------------------------------------------------------------------------
def _pat(shape, layer, salt):
    i = onp.arange(shape[0])[:, None]
    j = onp.arange(shape[1])[None, :]
    return (((3 * i + 5 * j + 7 * layer + i * j + salt) % 9) - 4) / 4.0  # values in {-1, -0.75, ..., 1}


def perturbed_model(model, variant):
    """Returns the numpy description (same format as extract_model) of the perturbed variant."""
    if variant == "trained":
        return model
    L = len(model["layers"])
    layers = []
    A = model["log_std"].shape[0]
    D = model["layers"][0][0].shape[0]
    if variant == "trainedX":
        for li, (W, b) in enumerate(model["layers"]):
            bb = b + (((2 * onp.arange(b.shape[0]) + 3 * li) % 5) - 2) / 8.0
            layers.append(((3.0 * W).astype(onp.float32), bb.astype(onp.float32)))
        log_std = (model["log_std"] + onp.array([-0.75, 0.375])[:A]).astype(onp.float32)
        norm = None
        if model["norm"] is not None:
            norm = dict(mean=(model["norm"]["mean"] + 0.5).astype(onp.float32), var=(model["norm"]["var"] * 0.25).astype(onp.float32), clip=7.0)
        scaling = dict(low=(model["scaling"]["low"] - 0.5).astype(onp.float32), high=(model["scaling"]["high"] + 0.25).astype(onp.float32), squash=model["scaling"]["squash"])
        return dict(layers=layers, log_std=log_std, norm=norm, scaling=scaling)
    salt = 0 if variant == "handA" else 4
    for li, (W, b) in enumerate(model["layers"]):
        fan_in = W.shape[0]
        if li == 0:
            s = 0.5 if variant == "handA" else 0.75
        elif li < L - 1:
            s = (1.5 if variant == "handA" else 2.0) / onp.sqrt(fan_in)
        else:
            s = (1.0 if variant == "handA" else 1.5) / onp.sqrt(fan_in)
        P = _pat(W.shape, li, salt)
        if variant == "handB":
            P = -P[::-1, :]
        bb = (((2 * onp.arange(b.shape[0]) + 3 * li + salt) % 5) - 2) / 4.0
        layers.append(((s * P).astype(onp.float32), bb.astype(onp.float32)))
    if variant == "handA":
        log_std = onp.array([-1.0, 0.5], dtype=onp.float32)[:A]
        norm = dict(mean=onp.array([0.5, -1.0, 0.25], dtype=onp.float32)[:D], var=onp.array([4.0, 0.25, 1.0], dtype=onp.float32)[:D], clip=5.0)
        scaling = dict(low=onp.array([-1.0, 0.0], dtype=onp.float32)[:A], high=onp.array([3.0, 0.5], dtype=onp.float32)[:A])
    else:
        log_std = onp.array([0.25, -2.0], dtype=onp.float32)[:A]
        norm = dict(mean=onp.array([-0.25, 0.25, 1.0], dtype=onp.float32)[:D], var=onp.array([1.0, 0.0625, 16.0], dtype=onp.float32)[:D], clip=2.5)
        if model["scaling"]["squash"]:
            scaling = dict(low=onp.array([0.5, -2.0], dtype=onp.float32)[:A], high=onp.array([3.0, 1.0], dtype=onp.float32)[:A])
        else:  # wide bounds: most of the lattice stays un-clipped, so the network output itself is what gets compared
            scaling = dict(low=onp.array([-40.0, -8.0], dtype=onp.float32)[:A], high=onp.array([24.0, 64.0], dtype=onp.float32)[:A])
    scaling["squash"] = model["scaling"]["squash"]
    if model["norm"] is None:
        norm = None
    return dict(layers=layers, log_std=log_std, norm=norm, scaling=scaling)


def inject(res, pm):
    """Builds a PPOResult whose runner state carries the perturbed values; everything else (structure, static fields,
    config, apply_fn) is the trained result's."""
    import jax.numpy as jnp

    rs = res.runner_state
    params = rs.train_state.params
    actor = dict(params["params"]["actor"])
    for li, (W, b) in enumerate(pm["layers"]):
        old = actor[f"Dense_{li}"]
        assert tuple(old["kernel"].shape) == W.shape and tuple(old["bias"].shape) == b.shape
        actor[f"Dense_{li}"] = {"kernel": jnp.asarray(W, dtype=jnp.float32), "bias": jnp.asarray(b, dtype=jnp.float32)}
    actor["log_std"] = jnp.asarray(pm["log_std"], dtype=jnp.float32)
    inner = dict(params["params"])
    inner["actor"] = actor
    new_params = dict(params)
    new_params["params"] = inner
    ts = rs.train_state.replace(params=new_params)
    aux = rs.env_state.aux
    upd = {}
    sc = aux["act_scaling"]
    nenv = sc.low.shape[0]
    upd["act_scaling"] = sc.replace(
        low=jnp.tile(jnp.asarray(pm["scaling"]["low"], dtype=jnp.float32)[None], (nenv, 1)),
        high=jnp.tile(jnp.asarray(pm["scaling"]["high"], dtype=jnp.float32)[None], (nenv, 1)),
    )
    if pm["norm"] is not None:
        n = aux["norm_obs"]
        upd["norm_obs"] = n.replace(
            mean=jnp.asarray(pm["norm"]["mean"], dtype=jnp.float32), var=jnp.asarray(pm["norm"]["var"], dtype=jnp.float32), clip=jnp.asarray(pm["norm"]["clip"], dtype=jnp.float32)
        )
    es = rs.env_state.replace_aux(upd)
    return res.replace(runner_state=rs.replace(train_state=ts, env_state=es))


# ------------------------------------------------------------------------------------------------
# real-code evaluators (built once per configuration: shapes do not change between variants)
# ------------------------------------------------------------------------------------------------
class Evaluators:
    def __init__(self, res):
        import jax

        apply_fn = res.runner_state.train_state.apply_fn
        self.jax = jax
        self.det = jax.jit(jax.vmap(lambda pol, o: pol.get_action(o), in_axes=(None, 0)))
        self.rnd = jax.jit(jax.vmap(jax.vmap(lambda pol, o, k: pol.get_action(o, rng=k), in_axes=(None, 0, None)), in_axes=(None, None, 0)))
        self.net_mean = jax.jit(lambda params, x: apply_fn(params, x)[0].mean())  # batched exactly like inside train
        self.net_sample = jax.jit(jax.vmap(jax.vmap(lambda params, x, k: apply_fn(params, x)[0].sample(seed=k), in_axes=(None, 0, None)), in_axes=(None, None, 0)))


def _bad(real, ref, tol):
    real = onp.asarray(real, dtype=onp.float64)
    d = onp.abs(real - ref)
    return ~(d <= tol), d  # NaN counts as bad


def _ratio(d, e, scaling):
    return float(onp.nanmax(d / R.tolerance(e, scaling))) if d.size else 0.0


def evaluate(res_v, ev, cfg, pm, obs, variant, only=None):
    """Compares every oracle on `obs` ([N, D] float64 holding float32 values). Returns stats + violations."""
    import jax
    import jax.numpy as jnp

    pol = res_v.policy  # <- the PPOResult -> Policy export under test
    params = res_v.runner_state.train_state.params
    obs32 = jnp.asarray(obs, dtype=jnp.float32)
    keys = jnp.stack([jax.random.PRNGKey(s) for s in KEY_SEEDS])
    A = pm["log_std"].shape[0]
    eps = onp.stack([onp.asarray(jax.random.normal(k, (A,)), dtype=onp.float64) for k in keys])  # the trusted base: eps = normal(key)
    sc = pm["scaling"]
    out = dict(viol=[], cases=0, cmps=0, traces=0, max_ratio={}, bitwise={})

    def report(check, bad, real, expect, tol):
        idx = onp.argwhere(bad.any(axis=-1))
        for ix in idx[:MAX_VIOL_PER_CHECK]:
            ix = tuple(int(i) for i in ix)
            oi = ix[-1]
            out["viol"].append(dict(check=check, variant=variant, obs=[float(v) for v in obs[oi]], obs_index=oi, key=None if len(ix) == 1 else int(KEY_SEEDS[ix[0]]),
                                    real=onp.asarray(real)[ix].tolist(), expected=onp.asarray(expect)[ix].tolist(), tol=onp.asarray(tol)[ix].tolist(), n_bad=int(len(idx))))

    # reference (numpy, float64)
    ref = R.forward(pm, cfg, obs)
    tol = R.tolerance(ref["e"], sc)
    # (1) deterministic action vs numpy reference
    a_det = onp.asarray(ev.det(pol, obs32))
    bad, d = _bad(a_det, ref["action"], tol)
    report("det-vs-ref", bad, a_det, ref["action"], tol)
    out["max_ratio"]["det-vs-ref"] = _ratio(d, ref["e"], sc)
    # (2) deterministic action vs the flax network used by train (normalise/unsquash done here in numpy)
    x32 = R.normalize_f32(obs, pm["norm"])
    mean_f = onp.asarray(ev.net_mean(params, jnp.asarray(x32)), dtype=onp.float64)
    a_flax = R.unsquash_plain(mean_f, sc)
    bad, d = _bad(a_det, a_flax, tol)
    report("det-vs-flax", bad, a_det, a_flax, tol)
    out["max_ratio"]["det-vs-flax"] = _ratio(d, ref["e"], sc)
    out["bitwise"]["det-vs-flax"] = int((onp.asarray(a_det, dtype=onp.float32) == a_flax.astype(onp.float32)).all(axis=-1).sum())
    # the flax network itself vs the numpy MLP (validates the reference against the trained actor; same tolerance idea)
    bad, d = _bad(mean_f, ref["mean"], R.SAFETY * ref["e_mean"] + 2 * R.U)
    report("flax-vs-ref(mean)", bad, mean_f, ref["mean"], R.SAFETY * ref["e_mean"] + 2 * R.U)
    # (3) sampled action vs numpy: mean + exp(log_std) * eps
    a_rnd = onp.asarray(ev.rnd(pol, obs32, keys))  # [K, N, A]
    refs = [R.forward(pm, cfg, obs, eps=onp.tile(eps[k][None], (obs.shape[0], 1))) for k in range(len(KEY_SEEDS))]
    ref_a = onp.stack([r["action"] for r in refs])
    ref_e = onp.stack([r["e"] for r in refs])
    tol_s = R.tolerance(ref_e, sc)
    bad, d = _bad(a_rnd, ref_a, tol_s)
    report("rng-vs-ref", bad, a_rnd, ref_a, tol_s)
    out["max_ratio"]["rng-vs-ref"] = _ratio(d, ref_e, sc)
    # (4) sampled action vs the distribution object of the flax network, same key
    smp_f = onp.asarray(ev.net_sample(params, jnp.asarray(x32), keys), dtype=onp.float64)
    a_sf = R.unsquash_plain(smp_f, sc)
    bad, d = _bad(a_rnd, a_sf, tol_s)
    report("rng-vs-flax", bad, a_rnd, a_sf, tol_s)
    out["max_ratio"]["rng-vs-flax"] = _ratio(d, ref_e, sc)
    # the sample must actually be a sample: differs from the mean somewhere
    out["rng_differs_from_det"] = bool((onp.abs(a_rnd - a_det[None]) > tol_s + tol[None]).any())
    n = obs.shape[0]
    out["cases"] += n * (1 + len(KEY_SEEDS))
    out["cmps"] += n * 2 + n * len(KEY_SEEDS) * 2 + n
    out["traces"] += n * (1 + len(KEY_SEEDS))
    # (5) eager, un-jitted, un-batched calls - the way tests/unit/test_ppo.py calls the policy
    eager_idx = [i for i in EAGER_IDX if i < n] if only is None else list(range(n))
    for i in eager_idx:
        o = jnp.asarray(obs[i], dtype=jnp.float32)
        a1 = onp.asarray(pol.get_action(o), dtype=onp.float64)
        b1, d1 = _bad(a1, ref["action"][i], tol[i])
        if b1.any():
            out["viol"].append(dict(check="eager-det-vs-ref", variant=variant, obs=[float(v) for v in obs[i]], obs_index=int(i), key=None, real=a1.tolist(), expected=ref["action"][i].tolist(), tol=tol[i].tolist(), n_bad=1))
        a2 = onp.asarray(pol.get_action(o, rng=keys[1]), dtype=onp.float64)
        b2, d2 = _bad(a2, ref_a[1][i], tol_s[1][i])
        if b2.any():
            out["viol"].append(dict(check="eager-rng-vs-ref", variant=variant, obs=[float(v) for v in obs[i]], obs_index=int(i), key=int(KEY_SEEDS[1]), real=a2.tolist(), expected=ref_a[1][i].tolist(), tol=tol_s[1][i].tolist(), n_bad=1))
        out["cases"] += 2
        out["cmps"] += 2
        out["traces"] += 2
    # regime coverage of this (variant, lattice)
    units = both = 0
    pats = []
    for pre in ref["pre"]:
        neg, pos = (pre < 0).any(axis=0), (pre > 0).any(axis=0)
        units += pre.shape[1]
        both += int((neg & pos).sum())
        pats.append(pre > 0)
    regions = len({row.tobytes() for row in onp.concatenate(pats, axis=1)}) if pats else 0
    nreg, areg = ref["norm_regime"], ref["act_regime"]
    out["regimes"] = dict(
        hidden_units=units, hidden_units_both_signs=both, activation_patterns=regions,
        obs_dims_all3=int(sum(len(set(nreg[:, k].tolist())) == 3 for k in range(nreg.shape[1]))) if pm["norm"] is not None else None,
        act_dims_all3=int(sum(len(set(areg[:, k].tolist())) == 3 for k in range(areg.shape[1]))),
        act_interior_components=int((areg == 0).sum()), act_components=int(areg.size),
    )
    return out


def eval_trace_check(res, ev, cfg, model):
    """(raw observation, applied action) pairs recorded by train's own final deterministic evaluation vs Policy.get_action."""
    import jax.numpy as jnp

    m = res.metrics
    valid = onp.asarray(m["c20/valid"])[-1].reshape(-1) > 0.5
    obs = onp.asarray(m["c20/obs"], dtype=onp.float64)[-1].reshape(-1, model["layers"][0][0].shape[0])[valid]
    act = onp.asarray(m["c20/act"], dtype=onp.float64)[-1].reshape(-1, model["log_std"].shape[0])[valid]
    _, first = onp.unique(obs, axis=0, return_index=True)
    obs, act = obs[onp.sort(first)], act[onp.sort(first)]
    ref = R.forward(model, cfg, obs)
    tol = R.tolerance(ref["e"], model["scaling"])
    a = onp.asarray(ev.det(res.policy, jnp.asarray(obs, dtype=jnp.float32)))
    viol = []
    bad, d = _bad(a, act, tol)
    for i in onp.argwhere(bad.any(axis=-1))[:MAX_VIOL_PER_CHECK, 0]:
        viol.append(dict(check="policy-vs-train-eval", variant="trained", obs=obs[i].tolist(), obs_index=int(i), key=None, real=a[i].tolist(), expected=act[i].tolist(), tol=tol[i].tolist(), n_bad=int(bad.any(axis=-1).sum())))
    bad2, d2 = _bad(act, ref["action"], tol)  # train's own evaluation vs the numpy reference (validates the reference's wiring)
    for i in onp.argwhere(bad2.any(axis=-1))[:MAX_VIOL_PER_CHECK, 0]:
        viol.append(dict(check="train-eval-vs-ref", variant="trained", obs=obs[i].tolist(), obs_index=int(i), key=None, real=act[i].tolist(), expected=ref["action"][i].tolist(), tol=tol[i].tolist(), n_bad=int(bad2.any(axis=-1).sum())))
    return dict(pairs=int(obs.shape[0]), viol=viol, obs=obs, bitwise=int((a.astype(onp.float32) == act.astype(onp.float32)).all(axis=-1).sum()))


# ------------------------------------------------------------------------------------------------
# pool task
# ------------------------------------------------------------------------------------------------
def run_config(cfg):
    from vf.common import import_rex

    import_rex()
    from vf import c20_env

    t0 = time.time()
    res, _ = c20_env.train(cfg)
    model = extract_model(res)
    if len(model["layers"]) != int(cfg["depth"]) + 1 or model["layers"][0][0].shape[1] != int(cfg["width"]):
        raise AssertionError(f"actor structure {[(w.shape) for w, _ in model['layers']]} does not match the requested depth/width {cfg}")
    if bool(cfg["norm"]) != (model["norm"] is not None) or bool(cfg["squash"]) != model["scaling"]["squash"]:
        raise AssertionError("training-time normalise/squash state does not match the requested configuration")
    t_train = time.time() - t0
    ev = Evaluators(res)
    lat = R.lattice(c20_env.OBS_DIM)
    out = dict(cfg=cfg, variants={}, viol=[], t_train=t_train)
    tr = eval_trace_check(res, ev, cfg, model)
    out["trace_pairs"], out["trace_bitwise"] = tr["pairs"], tr["bitwise"]
    out["viol"] += tr["viol"]
    for variant in VARIANTS:
        pm = perturbed_model(model, variant)
        res_v = res if variant == "trained" else inject(res, pm)
        if variant != "trained":  # the injection must have arrived where the reference reads the truth
            chk = extract_model(res_v)
            assert all(onp.array_equal(a[0], b[0]) and onp.array_equal(a[1], b[1]) for a, b in zip(chk["layers"], pm["layers"]))
        obs = lat if variant != "trained" else onp.concatenate([lat, tr["obs"]], axis=0)  # on-distribution points ride along
        r = evaluate(res_v, ev, cfg, pm, obs, variant)
        out["viol"] += r.pop("viol")
        out["variants"][variant] = r
    out["t_total"] = time.time() - t0
    out["sample"] = dict(cfg=cfg, trained_log_std=model["log_std"].tolist(), trained_norm=None if model["norm"] is None else {k: onp.asarray(v).tolist() for k, v in model["norm"].items()},
                         first_kernel_row=model["layers"][0][0][0].tolist())
    return out


def replay_case(rp):
    """rp: dict(cfg, variant, check, obs, key). Retrains the configuration and re-evaluates that observation."""
    from vf.common import import_rex

    import_rex()
    from vf import c20_env

    cfg = rp["cfg"]
    res, _ = c20_env.train(cfg)
    model = extract_model(res)
    ev = Evaluators(res)
    if rp["check"] in ("policy-vs-train-eval", "train-eval-vs-ref"):
        tr = eval_trace_check(res, ev, cfg, model)
        for v in tr["viol"]:
            print("  still failing:", v)
        return not tr["viol"]
    pm = perturbed_model(model, rp["variant"])
    res_v = res if rp["variant"] == "trained" else inject(res, pm)
    obs = onp.asarray([rp["obs"]], dtype=onp.float64)
    r = evaluate(res_v, ev, cfg, pm, obs, rp["variant"], only=True)
    for v in r["viol"]:
        print("  still failing:", {k: v[k] for k in ("check", "obs", "key", "real", "expected", "tol")})
    return not r["viol"]
