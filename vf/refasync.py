"""RefAsync: sequential reference model of the threaded runtime under the simulated clock (DESIGN 4.2).

Plain Python; takes the graph *spec* and the scripted delays, no rex imports.  All times are Python floats on the dyadic
lattice (multiples of 1/64 s with power-of-two rates), on which every operation below is exact, so comparisons with the
implementation use zero tolerance.
"""
import sys

from vf.probes import (U, f32_bits, node_ids, py_default_out_h, py_init_state_h, py_mix, py_next_rng, py_override_out_h, py_param,
                       py_probe_hash)

sys.setrecursionlimit(100000)


class AlgebraicLoop(Exception):
    pass


class Ref:
    def __init__(self, spec, init_rng=None, eps=0, overridden=(), buffer_skip_rule=True, sup_done=None):
        """init_rng: {node: (r0, r1)} initial per-node rng (part of the initial graph state).
        buffer_skip_rule: the property's rule (strictly after arrival for skipped connections, also with BUFFER)."""
        self.spec = spec
        self.nodes = spec["nodes"]
        self.ids = node_ids(spec)
        self.eps = eps
        self.overridden = set(overridden)
        # number of supervisor steps that were executed (run by the user thread or overridden); the supervisor rows
        # >= sup_done of a record are steps that were observed/skipped while stopping and never executed.
        self.sup_done = sup_done
        self.sup = spec["supervisor"]
        self.buffer_skip_rule = buffer_skip_rule
        self.init_rng = init_rng or {}
        self.inputs = {n: [] for n in self.nodes}  # n -> list of edges (sorted by producer name = input name)
        for e in spec["edges"]:
            self.inputs[e["n"]].append(e)
        for n in self.inputs:
            self.inputs[n].sort(key=lambda e: e["o"])
        self._phase = {}
        self._start, self._recv, self._D, self._cons, self._pay = {}, {}, {}, {}, {}
        for n in self.nodes:
            self.phase(n)

    # ---- static configuration -------------------------------------------------------------------
    def exp_comp(self, n):
        c = self.nodes[n]["comp"]
        return c.get("expected", c["nominal"]) * U

    def exp_comm(self, e):
        c = e["comm"]
        return c.get("expected", c["nominal"]) * U

    def phase(self, n, stack=()):
        if n in self._phase:
            return self._phase[n]
        if n in stack:
            raise AlgebraicLoop("->".join(stack + (n,)))
        ph = 0.0
        for e in self.inputs[n]:
            if e.get("skip", False):
                continue
            ph = max(ph, self.conn_phase(e, stack + (n,)))
        self._phase[n] = ph
        return ph

    def conn_phase(self, e, stack=()):
        return self.phase(e["o"], stack) + self.exp_comp(e["o"]) + self.exp_comm(e)

    def rate(self, n):
        return self.nodes[n]["rate"]

    # ---- scripted delays (the environment's answers) ----------------------------------------------
    def cd(self, n, k):
        c = self.nodes[n]["comp"]
        s = c.get("script", [])
        return (s[k] if k < len(s) else c["nominal"]) * U

    def md(self, e, i):
        c = e["comm"]
        s = c.get("script", [])
        return (s[i] if i < len(s) else c["nominal"]) * U

    # ---- timing law -----------------------------------------------------------------------------------
    def sched(self, n, k):
        return round(k / self.rate(n) + self.phase(n), 6)

    def end(self, n, k):
        return 0.0 if k < 0 else self.start(n, k) + self.cd(n, k)

    def recv(self, e, i):
        if i < 0:
            return 0.0
        key = (e["o"], e["n"], i)
        if key not in self._recv:
            self._recv[key] = round(max(self.end(e["o"], i) + self.md(e, i), self.recv(e, i - 1)), 6)
        return self._recv[key]

    def blocking_msgs(self, e, N):
        o, n = e["o"], e["n"]
        ph_n, ph_o = round(self.phase(n), 6), round(self.phase(o), 6)
        hi = round(N / self.rate(n) + ph_n, 6)
        lo = round((N - 1) / self.rate(n) + ph_n, 6)
        skip = e.get("skip", False)
        res, i = [], 0
        while True:
            t = round(i / self.rate(o) + ph_o, 6)
            if t > hi:
                break
            if N == 0:
                ok = (t < hi) if skip else (t <= hi)
            else:
                ok = (lo <= t < hi) if skip else (lo < t <= hi)
            if ok:
                res.append(i)
            i += 1
        return res

    def only_blocking(self, n):
        return bool(self.nodes[n].get("advance", False)) and all(e.get("blocking", False) for e in self.inputs[n])

    def D(self, n, k):
        """accumulated drift (structural scheduling shift) used by tick k"""
        if k == 0:
            return 0.0
        key = (n, k)
        if key not in self._D:
            if self.nodes[n].get("sched", "FREQ") == "FREQ":
                prev = self.D(n, k - 1)
                last = self.end(n, k - 2) - self.sched(n, k - 1)
                self._D[key] = prev + max(0, last - prev)
            else:
                self._D[key] = 0.0
        return self._D[key]

    def tmax(self, n, k):
        t = 0.0
        for e in self.inputs[n]:
            if e.get("blocking", False):
                for i in self.blocking_msgs(e, k):
                    t = max(t, self.recv(e, i))
        return t

    def start(self, n, k):
        key = (n, k)
        if key not in self._start:
            sched = self.sched(n, k)
            terms = [self.tmax(n, k) - sched, self.end(n, k - 1) - sched]
            if not self.only_blocking(n):
                terms.append(self.D(n, k))
            self._start[key] = sched + max(terms)
        return self._start[key]

    # ---- consumption ------------------------------------------------------------------------------------
    def consumed_by(self, e, t):
        """list of message indices of connection e consumed by receiver step t (memoised, sequential in t)."""
        key = (e["o"], e["n"], t)
        if key in self._cons:
            return self._cons[key]
        if e.get("blocking", False):
            res = self.blocking_msgs(e, t)
        else:
            nxt = 0
            if t > 0:
                for tt in range(t - 1, -1, -1):  # first unconsumed message index
                    prev = self.consumed_by(e, tt)
                    if prev:
                        nxt = prev[-1] + 1
                        break
            ts = self.start(e["n"], t)
            res, i = [], nxt
            skip = e.get("skip", False)
            while True:
                r = self.recv(e, i)
                if e.get("jitter", "LATEST") == "BUFFER":
                    texp = i / self.rate(e["o"]) + self.conn_phase(e)
                    ok = texp <= ts and r <= ts
                    if self.buffer_skip_rule and skip and r == ts:
                        ok = False
                else:
                    ok = (r < ts) if skip else (r <= ts)
                if not ok:
                    break
                res.append(i)
                i += 1
        self._cons[key] = res
        return res

    def consumption(self, e, K):
        out = []
        for t in range(K):
            for i in self.consumed_by(e, t):
                out.append((i, t))
        return out

    def window(self, e, t):
        """window entries of input e at receiver step t, oldest first: (seq, ts_sent, ts_recv) with seq<0 for defaults"""
        W = int(e.get("window", 1))
        got = []
        tt = t
        while len(got) < W and tt >= 0:
            c = self.consumed_by(e, tt)
            if c:
                got = c[-(W - len(got)) :] + got
            tt -= 1
        pad = W - len(got)
        entries = [(-(pad - j), 0.0, 0.0) for j in range(pad)]  # seq = -pad..-1 (any negative = default)
        for i in got:
            entries.append((i, self.end(e["o"], i), self.recv(e, i)))
        return entries

    # ---- payloads (numpy/jax twin of the probe step, evaluated in dependency order) ------------------------
    def rng_at(self, n, k):
        """rng seen by step k (the supervisor's overridden steps do not advance it)"""
        r = tuple(int(x) for x in self.init_rng.get(n, (0, 0)))
        for j in range(k):
            if n == self.sup and (j in self.overridden or (self.sup_done is not None and j >= self.sup_done)):
                continue
            r = py_next_rng(r)
        return r

    def payload(self, n, k):
        """returns dict(out_h, state_h_before, state_h_after, rng_before, windows)"""
        key = (n, k)
        if key in self._pay:
            return self._pay[key]
        pid = self.ids[n]
        state_before = py_init_state_h(pid) if k == 0 else self.payload(n, k - 1)["state_after"]
        rng = self.rng_at(n, k)
        wins = []
        wdesc = {}
        for e in self.inputs[n]:
            ent = []
            full = []
            for (s, a, b) in self.window(e, k):
                if s < 0:
                    dh = py_default_out_h(self.ids[e["o"]])
                else:
                    dh = self.payload(e["o"], s)["out_h"]
                ent.append((dh, s, f32_bits(a), f32_bits(b)))
                full.append((s, a, b, dh))
            wins.append(ent)
            wdesc[e["o"]] = full
        if n == self.sup and self.sup_done is not None and k >= self.sup_done:
            out_h = None  # never executed
            state_after = state_before
        elif n == self.sup and k in self.overridden:
            out_h = py_override_out_h(pid, self.eps, k)
            state_after = state_before
        else:
            out_h = py_probe_hash(pid, py_param(pid), self.eps, k, f32_bits(self.start(n, k)), rng, state_before, wins)
            state_after = out_h
        res = dict(out_h=out_h, state_before=state_before, state_after=state_after, rng=rng, windows=wdesc)
        self._pay[key] = res
        return res


# ------------------------------------------------------------------------------------------------------------
# comparison of a recorded episode with the reference
# ------------------------------------------------------------------------------------------------------------
def compare_record(spec, record, ref, check_payload=True, times_only=False, max_err=8):
    """record: summarize_record() dict. Returns list of (signature, detail)."""
    errs = []

    def err(sig, *detail):
        if len(errs) < max_err:
            errs.append((sig, detail))

    for n, nr in record.items():
        st = nr["steps"]
        K = len(st["seq"])
        if st["seq"] != list(range(K)):
            err("steps.seq-gap", n, st["seq"])
            continue
        for k in range(K):
            if st["ts_start"][k] != ref.start(n, k):
                err("ts_start", n, k, st["ts_start"][k] * 64, ref.start(n, k) * 64)
            if st["ts_end"][k] != ref.end(n, k):
                err("ts_end", n, k, st["ts_end"][k] * 64, ref.end(n, k) * 64)
            if st["delay"][k] != ref.cd(n, k):
                err("delay", n, k, st["delay"][k] * 64, ref.cd(n, k) * 64)
        for e in ref.inputs[n]:
            o = e["o"]
            ms = nr["inputs"].get(o)
            if ms is None:
                err("missing-input-record", n, o)
                continue
            exp = ref.consumption(e, K)
            got = list(zip(ms["seq_out"], ms["seq_in"]))
            if times_only:
                pass
            elif got != exp:
                kind = ("blocking" if e.get("blocking") else e.get("jitter", "LATEST")) + ("+skip" if e.get("skip") else "")
                err("consumption:" + kind, n, o, "got", got[:24], "expected", exp[:24])
                continue
            for j, (i, t) in enumerate(got):
                if ms["ts_recv"][j] != ref.recv(e, i):
                    err("ts_recv", n, o, i, ms["ts_recv"][j] * 64, ref.recv(e, i) * 64)
                if ms["ts_sent"][j] != ref.end(o, i):
                    err("ts_sent", n, o, i, ms["ts_sent"][j] * 64, ref.end(o, i) * 64)
        if not check_payload:
            continue
        Kp = K
        if n == ref.sup and ref.sup_done is not None:
            Kp = min(K, ref.sup_done + 1)  # rows beyond the first unexecuted supervisor step carry no defined payload
        for k in range(Kp):
            p = ref.payload(n, k)
            if "rng" in st and tuple(st["rng"][k]) != tuple(p["rng"]):
                err("rng", n, k, st["rng"][k], p["rng"])
            if "state_h" in st and st["state_h"][k] != p["state_before"]:
                err("state", n, k, st["state_h"][k], p["state_before"])
            if "out_h" in st and k < len(st["out_h"]) and p["out_h"] is not None and st["out_h"][k] != p["out_h"]:
                err("output", n, k, st["out_h"][k], p["out_h"])
            if "inputs" in st:
                for e in ref.inputs[n]:
                    o = e["o"]
                    w = st["inputs"][o]
                    expw = p["windows"][o]
                    gotw = list(zip(w["seq"][k], w["ts_sent"][k], w["ts_recv"][k], w["data_h"][k]))
                    for (gs_, ga, gb, gd), (s, a, b, dh) in zip(gotw, expw):
                        if (gs_ < 0) != (s < 0) or (s >= 0 and gs_ != s):
                            err("window.seq", n, k, o, w["seq"][k], [x[0] for x in expw])
                            break
                        if gd != dh:
                            err("window.data", n, k, o, w["data_h"][k], [x[3] for x in expw])
                            break
                        if s >= 0 and (f32_bits(ga) != f32_bits(a) or f32_bits(gb) != f32_bits(b)):
                            err("window.ts", n, k, o, (ga * 64, gb * 64), (a * 64, b * 64))
                            break
    return errs


def compare_obs(spec, obs_list, ref, max_err=4):
    """The supervisor's observed StepStates (returned by reset/step) against the reference."""
    errs = []
    n = spec["supervisor"]
    for k, ob in enumerate(obs_list):
        if ob["seq"] != k:
            errs.append(("obs.seq", (k, ob["seq"])))
            continue
        if f32_bits(ob["ts"]) != f32_bits(ref.start(n, k)):
            errs.append(("obs.ts", (k, ob["ts"] * 64, ref.start(n, k) * 64)))
        p = ref.payload(n, k)
        if tuple(ob["rng"]) != tuple(p["rng"]):
            errs.append(("obs.rng", (k, ob["rng"], p["rng"])))
        if ob["state_h"] != p["state_before"]:
            errs.append(("obs.state", (k, ob["state_h"], p["state_before"])))
        for e in ref.inputs[n]:
            o = e["o"]
            w = ob["inputs"][o]
            expw = p["windows"][o]
            for (gs_, gd), (s, a, b, dh) in zip(zip(w["seq"], w["data_h"]), expw):
                if (gs_ < 0) != (s < 0) or (s >= 0 and gs_ != s) or gd != dh:
                    errs.append(("obs.window", (k, o, w["seq"], w["data_h"], [(x[0], x[3]) for x in expw])))
                    break
        if len(errs) >= max_err:
            break
    return errs
