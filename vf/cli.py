"""./check <ID> [--tier quick|thorough] [--replay FILE]"""
import argparse
import importlib
import json
import os
import sys
import traceback


def main():
    ap = argparse.ArgumentParser()
    ap.add_argument("pid")
    ap.add_argument("--tier", default=os.environ.get("VERIF_TIER", "quick"), choices=["quick", "thorough"])
    ap.add_argument("--replay", default=None)
    a = ap.parse_args()
    from vf.common import HarnessError, Reporter, setup_env

    setup_env()
    pid = a.pid.upper()
    try:
        mod = importlib.import_module(f"vf.props.{pid.lower()}")
    except ModuleNotFoundError as e:
        print(f"no check for {pid}: {e}")
        sys.exit(2)
    try:
        if a.replay:
            with open(a.replay) as f:
                body = json.load(f)
            ok = mod.replay(body)
            sys.exit(0 if ok else 1)
        rep = Reporter(pid, a.tier)
        mod.run(a.tier, rep)
        code = rep.finish()
    except HarnessError as e:
        print(f"HARNESS-ERROR property={pid}: {e}")
        sys.exit(2)
    except Exception:
        print(f"HARNESS-ERROR property={pid}: unexpected exception in the machinery")
        traceback.print_exc()
        sys.exit(2)
    sys.stdout.flush()
    os._exit(code)


if __name__ == "__main__":
    main()
