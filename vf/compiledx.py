"""Helpers around the compiled runtime (rex.graph.Graph): building instances, running them, reading their records."""
import numpy as onp

from vf.probes import build_nodes, node_ids

MODES = ("MCS", "GENERATIONAL", "TOPOLOGICAL")


def conns_meta(nodes):
    meta = {}
    for n in nodes.values():
        for c in n.inputs.values():
            meta[(c.output_node.name, n.name)] = dict(window=int(c.window + c.delay_dist.window(c.output_node.rate)), base_window=int(c.window), skip=bool(c.skip))
    return meta


def build_graph(nodes, sup, graphs_raw, mode="MCS", prune=True, **kw):
    from rex.constants import Supergraph
    from rex.graph import Graph

    m = {"MCS": Supergraph.MCS, "GENERATIONAL": Supergraph.GENERATIONAL, "TOPOLOGICAL": Supergraph.TOPOLOGICAL}[mode]
    return Graph(nodes, sup, graphs_raw, supergraph=m, prune=prune, progress_bar=False, **kw)


def buffer_sizes(graph, gs=None):
    import jax

    gs = gs if gs is not None else graph.init()
    return {k: int(jax.tree_util.tree_leaves(b)[0].shape[0]) for k, b in gs.buffer.items()}


def init_with_rng(graph, init_rng=None, eps=0, step=0, seed=0, **kw):
    """graph.init, then (optionally) the per-node rng of another runtime copied in (C01: 'same initial per-node rng')."""
    import jax
    import jax.numpy as jnp
    from flax.core import FrozenDict

    gs = graph.init(rng=jax.random.PRNGKey(seed), starting_eps=eps, starting_step=step, **kw)
    if init_rng is not None:
        gs = gs.replace(rng=FrozenDict({k: jnp.asarray(onp.asarray(v, dtype=onp.uint32)) for k, v in init_rng.items()}))
    return gs


def summarize_compiled_record(rec):
    """EpisodeRecord (Clock.COMPILED) -> plain dict, rows kept as they are (unexecuted rows are -1)."""
    out = {}
    for n, nr in rec.nodes.items():
        s = nr.steps
        K = int(onp.asarray(s.seq).shape[0])
        d = dict(
            eps=onp.asarray(s.eps).tolist(), seq=onp.asarray(s.seq).tolist(),
            ts_start=onp.asarray(s.ts_start, dtype=onp.float64).tolist(), ts_end=onp.asarray(s.ts_end, dtype=onp.float64).tolist(),
            delay=onp.asarray(s.delay, dtype=onp.float64).tolist(),
        )
        if s.rng is not None:
            d["rng"] = onp.asarray(s.rng).astype(onp.int64).tolist()
        if s.state is not None:
            d["state_h"] = onp.asarray(s.state.h).astype(onp.int64).reshape(K, -1)[:, 0].tolist()
            d["state_n"] = onp.asarray(s.state.n).astype(onp.int64).reshape(K, -1)[:, 0].tolist()
        if s.output is not None:
            d["out_h"] = onp.asarray(s.output.h).astype(onp.int64).reshape(K, -1)[:, 0].tolist()
            d["out_tag"] = onp.asarray(s.output.tag).astype(onp.int64).reshape(K, -1).tolist()
        if s.inputs is not None:
            ins = {}
            for name, i in s.inputs.items():
                ins[name] = dict(
                    seq=onp.asarray(i.seq).reshape(K, -1).tolist(),
                    ts_sent=onp.asarray(i.ts_sent, dtype=onp.float64).reshape(K, -1).tolist(),
                    ts_recv=onp.asarray(i.ts_recv, dtype=onp.float64).reshape(K, -1).tolist(),
                    data_h=onp.asarray(i.data.h).astype(onp.int64).reshape(K, -1).tolist(),
                    data_tag=onp.asarray(i.data.tag).astype(onp.int64).reshape(K, -1, 3).tolist(),
                )
            d["inputs"] = ins
        if nr.params is not None:
            d["params_p"] = int(onp.asarray(nr.params.p).reshape(-1)[0])
        out[n] = d
    return out


ALL_ON = dict(params=True, rng=True, inputs=True, state=True, output=True)


def make_rollout(graph, max_steps=None, jit=True, record=True, settings=None):
    """one (jitted) rollout function per graph object: eps/step/rng are data, so every episode reuses the compilation.
    init_record happens inside the traced function: a record holds NodeInfo (with arrays) as static metadata, which a
    cached jit could not compare on a second call."""
    import jax

    st = settings or ALL_ON

    def f(g):
        if record:
            g = graph.init_record(g, **st)
        return graph.rollout(g, max_steps=max_steps, carry_only=True)

    return jax.jit(f) if jit else f


def rollout_with_record(graph, gs, record=True, max_steps=None, jit=True, settings=None, fn=None):
    import jax

    f = fn or make_rollout(graph, max_steps, jit, record, settings)
    out = f(gs)
    jax.block_until_ready(out)
    return out


def async_record_to_graphs(job):
    """Run one threaded job (possibly several episodes, base schedule) and convert its records with rex's own
    EpisodeRecord.to_graph / ExperimentRecord.to_graph. Returns (graphs_raw | None, result)."""
    from rex.base import ExperimentRecord

    from vf.asyncx import run_job

    res = run_job(job, keep_graph=True)
    if not res["finished"]:
        return None, res
    recs = [ep.get("_rexrec") for ep in res["episodes"] if "record" in ep]
    if not recs or any(r is None for r in recs):
        return None, res  # an empty connection made get_record() raise (DESIGN section 7): not convertible
    if len(recs) == 1:
        return recs[0].to_graph(), res
    return ExperimentRecord(episodes=recs).to_graph(), res
