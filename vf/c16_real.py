"""C16 real side: build rex nodes from an operation history, observe them as plain dicts, round trip, simulate."""
import copy
import sys

from vf.common import import_rex

_DIST_OBJ = {}
_SIG_CACHE = {}  # id(dist object) -> (object kept alive, signature)


def _mods():
    import_rex()
    import distrax
    import jax
    from rex import base, constants
    from rex.node import BaseNode

    return distrax, jax, base, constants, BaseNode


def dist_obj(key):
    """What is handed to rex for a distribution key of c16_ref.DISTS: a raw distrax distribution, except S3 which is a
    ready-made rex StaticDist with its own rng (the API accepts both)."""
    if key is None:
        return None
    if key not in _DIST_OBJ:
        distrax, jax, base, _, _ = _mods()
        from vf.c16_ref import DISTS

        kind, loc, scale, rng = DISTS[key]
        d = distrax.Deterministic(loc=loc) if kind == "Deterministic" else distrax.Normal(loc=loc, scale=scale)
        if key.startswith("S"):
            d = base.StaticDist(rng=jax.random.PRNGKey(rng[1]), dist=d)
        _DIST_OBJ[key] = d
    return _DIST_OBJ[key]


def dist_sig(dd):
    """(kind, loc, scale, rng) of a rex delay distribution object."""
    hit = _SIG_CACHE.get(id(dd))
    if hit is not None and hit[0] is dd:
        return hit[1]
    import numpy as onp

    d = getattr(dd, "dist", None)
    if d is None:
        sig = ("?" + type(dd).__name__, None, None, None)
    else:
        kind = type(d).__name__
        loc = float(d.loc) if hasattr(d, "loc") else None
        scale = float(d.scale) if kind == "Normal" else None
        sig = (kind, loc, scale, tuple(int(v) for v in onp.asarray(dd.rng).reshape(-1)))
    _SIG_CACHE[id(dd)] = (dd, sig)
    return sig


def build_init(init=None):
    from vf.c16_ref import default_init

    _, _, _, constants, BaseNode = _mods()
    nodes = {}
    for spec in init if init is not None else default_init():
        kw = dict(name=spec["name"], rate=spec["rate"])
        if spec.get("dist") is not None:
            kw["delay_dist"] = dist_obj(spec["dist"])
        if spec.get("delay") is not None:
            kw["delay"] = spec["delay"]
        if "advance" in spec:
            kw["advance"] = spec["advance"]
        if "scheduling" in spec:
            kw["scheduling"] = getattr(constants.Scheduling, spec["scheduling"])
        if "color" in spec:
            kw["color"] = spec["color"]
        if "order" in spec:
            kw["order"] = spec["order"]
        nodes[spec["name"]] = BaseNode(**kw)
    return nodes


def apply(nodes, op):
    kind = op[0]
    if kind == "connect":
        _, x, y, blocking, skip, dist, delay = op[:7]
        extra = op[7] if len(op) > 7 and op[7] else {}
        kw = dict(blocking=blocking, skip=skip)
        if dist is not None:
            kw["delay_dist"] = dist_obj(dist)
        if delay is not None:
            kw["delay"] = delay
        if extra.get("name"):
            kw["name"] = extra["name"]
        if "window" in extra:
            kw["window"] = extra["window"]
        if "jitter" in extra:
            from rex.constants import Jitter

            kw["jitter"] = getattr(Jitter, extra["jitter"])
        nodes[x].connect(nodes[y], **kw)
    elif kind == "nset":
        _, x, dist, delay = op
        kw = {}
        if dist is not None:
            kw["delay_dist"] = dist_obj(dist)
        if delay is not None:
            kw["delay"] = delay
        nodes[x].set_delay(**kw)
    elif kind == "cset":
        _, x, name, dist, delay = op
        kw = {}
        if dist is not None:
            kw["delay_dist"] = dist_obj(dist)
        if delay is not None:
            kw["delay"] = delay
        nodes[x].inputs[name].set_delay(**kw)
    else:
        raise ValueError(op)


def build(init, history):
    nodes = build_init(init)
    for op in history:
        apply(nodes, op)
    return nodes


def clone(nodes):
    """Independent copy of the node objects and their Connection objects. The immutable distribution objects
    (frozen dataclasses / distrax objects holding jax arrays) are shared, not copied."""
    memo = {}
    for n in nodes.values():
        memo[id(n.delay_dist)] = n.delay_dist
        for c in list(n.inputs.values()) + list(n.outputs.values()):
            memo[id(c.delay_dist)] = c.delay_dist
    return copy.deepcopy(nodes, memo)


# ------------------------------------------------------------------------------------------------------------
# observation
# ------------------------------------------------------------------------------------------------------------
class shallow_recursion:
    """rex detects algebraic loops by running into Python's recursion limit (about 330 hops, 3.5 ms per query at
    the default limit of 1000). Inside this context the limit is current depth + `extra` frames (>= 40 hops, far more
    than any loop-free path over <= 4 nodes needs), which only shortens the repeated 'a->b->a->b...' text."""

    def __init__(self, extra):
        self.extra = extra

    def __enter__(self):
        self.old = sys.getrecursionlimit()
        if self.extra:
            depth, f = 0, sys._getframe()
            while f is not None:
                depth, f = depth + 1, f.f_back
            sys.setrecursionlimit(max(depth + self.extra, 64))

    def __exit__(self, *a):
        sys.setrecursionlimit(self.old)


MSG = "Algebraic loop detected"


def _guard(f):
    """value of f(), or {'loop': [names], 'msg': bool} when rex reports an algebraic loop, or {'error': ...}."""
    try:
        return f()
    except RecursionError as e:
        s = str(e)
        chain = s.split("Loop: ", 1)[1].split("->") if "Loop: " in s else []
        return {"loop": chain, "msg": MSG in s}
    except Exception as e:  # noqa
        return {"error": f"{type(e).__name__}: {str(e)[:200]}"}


def _info_plain(info):
    return dict(
        rate=info.rate, advance=info.advance, scheduling=info.scheduling.name, phase=info.phase, dist=dist_sig(info.delay_dist), delay=info.delay,
        inputs={k: dict(rate=i.rate, window=i.window, blocking=i.blocking, skip=i.skip, jitter=i.jitter.name, phase=i.phase, dist=dist_sig(i.delay_dist),
                        delay=i.delay, name=i.name, output=i.output) for k, i in info.inputs.items()},
        name=info.name, cls=info.cls, color=info.color, order=info.order,
    )


def observe(nodes, extra_frames=240):
    obs = {}
    with shallow_recursion(extra_frames):
        raw = {}
        for key, n in nodes.items():
            raw[key] = dict(
                phase=_guard(lambda: n.phase), phase_output=_guard(lambda: n.phase_output), info=_guard(lambda: n.info),
                cphase={k: _guard(lambda c=c: c.phase) for k, c in n.inputs.items()},
            )
    for key, n in nodes.items():
        r = raw[key]
        o = dict(name=n.name, rate=n.rate, dist=dist_sig(n.delay_dist), delay=n.delay, advance=n.advance, scheduling=n.scheduling.name, color=n.color, order=n.order)
        o["inputs"] = {
            k: dict(inn=c.input_node.name, out=c.output_node.name, blocking=c.blocking, skip=c.skip, jitter=c.jitter.name, window=c.window,
                    dist=dist_sig(c.delay_dist), delay=c.delay, input_name=c.input_name, phase=r["cphase"][k])
            for k, c in n.inputs.items()
        }
        o["outputs"] = {k: dict(inn=c.input_node.name, out=c.output_node.name, input_name=c.input_name, same=c.input_node.inputs.get(c.input_name) is c)
                        for k, c in n.outputs.items()}
        o["phase"] = r["phase"]
        o["phase_output"] = r["phase_output"]
        info = r["info"]
        o["info"] = info if isinstance(info, dict) else _info_plain(info)
        obs[key] = o
    return obs


def normalise_loops(ref_model, obs):
    """Replace every well-formed loop report by the marker LOOP (so that it compares equal to the reference), leave
    malformed ones (no 'Algebraic loop detected' text, or a chain that is not a walk along non-skipped connections
    ending at the queried node) in place so that they show up as a difference."""
    from vf.c16_ref import LOOP

    def norm(v, end):
        if isinstance(v, dict) and "loop" in v and set(v) == {"loop", "msg"}:
            if v["msg"] and ref_model.valid_loop_chain(v["loop"], end):
                return LOOP
            return {"malformed_loop_report": v["loop"][-8:], "msg": v["msg"], "expected_end": end}
        return v

    for n, o in obs.items():
        o["phase"] = norm(o["phase"], o["name"])
        o["phase_output"] = norm(o["phase_output"], o["name"])
        # info: the error may come from the node's own phase (chain ends at the node) or from an input's sender
        v = o["info"]
        if isinstance(v, dict) and "loop" in v and set(v) == {"loop", "msg"}:
            ends = [o["name"]] + [c["out"] for c in o["inputs"].values()]
            o["info"] = LOOP if v["msg"] and any(ref_model.valid_loop_chain(v["loop"], e) for e in ends) else norm(v, o["name"])
        for k, c in o["inputs"].items():
            c["phase"] = norm(c["phase"], c["out"])
    return obs


# ------------------------------------------------------------------------------------------------------------
# round trip
# ------------------------------------------------------------------------------------------------------------
def round_trip(nodes):
    """from_info + connect_from_info exactly as rex's own callers do it (info.inputs handed to connect_from_info)."""
    infos = {k: n.info for k, n in nodes.items()}
    rebuilt = {k: type(nodes[k]).from_info(infos[k]) for k in nodes}
    for k, n in rebuilt.items():
        n.connect_from_info(infos[k].inputs, rebuilt)
    return rebuilt


# ------------------------------------------------------------------------------------------------------------
# simulation
# ------------------------------------------------------------------------------------------------------------
def simulate(nodes, ts_max, seed):
    """rex.artificial.generate_graphs on the nodes -> plain numpy timings of one episode."""
    import numpy as onp

    distrax, jax, base, constants, BaseNode = _mods()
    from rex.artificial import generate_graphs

    g = generate_graphs(nodes, ts_max=ts_max, rng=jax.random.PRNGKey(seed), num_episodes=1)
    vs = {n: dict(seq=onp.asarray(v.seq)[0], ts_start=onp.asarray(v.ts_start, dtype=onp.float64)[0], ts_end=onp.asarray(v.ts_end, dtype=onp.float64)[0])
          for n, v in g.vertices.items()}
    es = {k: dict(seq_out=onp.asarray(e.seq_out)[0], ts_recv=onp.asarray(e.ts_recv, dtype=onp.float64)[0]) for k, e in g.edges.items()}
    return vs, es
