"""C12 worker side: build rex nodes from a spec, run generate_graphs / augment_graphs (the real code), hand the result to the oracle."""
import os

import numpy as onp

from vf import c12_family as F
from vf import c12_ref as R

_STATE = {}


def _setup():
    if _STATE:
        return _STATE
    from vf.common import import_rex

    import_rex()
    import jax

    cache = os.environ.get("VERIF_C12_JAXCACHE")
    if cache:
        # generate_graphs re-traces and re-compiles its scans on every call; identical HLO (same rates / shapes) is shared between calls
        # and worker processes through jax's persistent compilation cache (keyed on the HLO, so it cannot change a result)
        try:
            jax.config.update("jax_compilation_cache_dir", cache)
            jax.config.update("jax_persistent_cache_min_compile_time_secs", 0)
            jax.config.update("jax_persistent_cache_min_entry_size_bytes", -1)
        except Exception:  # noqa
            pass
    import distrax
    import jax.numpy as jnp

    from rex.node import BaseNode

    class GenNode(BaseNode):
        def init_output(self, rng=None, graph_state=None):
            return jnp.zeros(())

        def step(self, step_state):
            return step_state, jnp.zeros(())

    _STATE.update(jax=jax, jnp=jnp, distrax=distrax, GenNode=GenNode)
    return _STATE


def _dist(d):
    S = _setup()
    distrax, jnp = S["distrax"], S["jnp"]
    from rex.base import TrainableDist

    k = d["k"]
    if k == "det":
        return distrax.Deterministic(d["v"])
    if k == "none":
        return None
    if k == "two":
        # a mixture of zero-width Normals: a stochastic distribution whose samples are exactly the listed (dyadic) values
        return distrax.MixtureSameFamily(distrax.Categorical(probs=jnp.array(d["p"])), distrax.Normal(loc=jnp.array(d["v"]), scale=jnp.zeros(len(d["v"]))))
    if k == "normal":
        return distrax.Normal(loc=d["mu"], scale=d["sigma"])
    if k == "mix":
        return distrax.MixtureSameFamily(distrax.Categorical(probs=jnp.array(d["p"])), distrax.Normal(loc=jnp.array(d["mu"]), scale=jnp.array(d["sigma"])))
    if k == "train":
        return TrainableDist.create(d["delay"], d["min"], d["max"])
    raise ValueError(d)


def build_nodes(spec):
    S = _setup()
    nodes = {}
    for n in spec["nodes"]:
        nodes[n["name"]] = S["GenNode"](n["name"], rate=n["rate"], delay=n["delay"], delay_dist=_dist(n["comp"]))
    for e in spec["edges"]:
        nodes[e["n"]].connect(nodes[e["o"]], blocking=False, delay=e["delay"], delay_dist=_dist(e["comm"]), window=e["window"], skip=e["skip"])
    return nodes


def to_plain(graph):
    def arr(x):
        a = onp.asarray(x)
        return a[None] if a.ndim == 1 else a

    return dict(
        vertices={n: dict(seq=arr(v.seq), ts_start=arr(v.ts_start), ts_end=arr(v.ts_end)) for n, v in graph.vertices.items()},
        edges={R.ekey(*k): dict(seq_out=arr(e.seq_out), seq_in=arr(e.seq_in), ts_recv=arr(e.ts_recv)) for k, e in graph.edges.items()},
    )


def nx_check(graph, plain, nodes, fd, where):
    """rex' own converter with validate=True + networkx acyclicity, per episode."""
    import networkx as nx

    from rex.utils import to_networkx_graph

    S = _setup()
    v = next(iter(graph.vertices.values()))
    batched = onp.asarray(v.seq).ndim == 2
    E = onp.asarray(v.seq).shape[0] if batched else 1
    for e in range(E):
        ge = S["jax"].tree_util.tree_map(lambda x: onp.asarray(x)[e], graph) if batched else graph
        try:
            G = to_networkx_graph(ge, nodes=nodes, validate=True)
        except AssertionError as ex:
            fd.bad("graph:networkx-validate", where=f"{where}/ep{e}", error=str(ex)[:200])
            continue
        fd.cmp(G.number_of_nodes() + G.number_of_edges())
        if not nx.is_directed_acyclic_graph(G):
            fd.bad("graph:cycle-networkx", where=f"{where}/ep{e}", cycle=[list(map(str, c)) for c in nx.find_cycle(G)][:6])
        nvalid = sum(int((a["seq"][e] >= 0).sum()) for a in plain["vertices"].values())
        if G.number_of_nodes() != nvalid:
            fd.bad("graph:networkx-vertex-count", where=f"{where}/ep{e}", got=G.number_of_nodes(), expected=nvalid)


def generate(nodes, ts_max, key, episodes):
    S = _setup()
    from rex.artificial import generate_graphs

    g = generate_graphs(nodes, float(ts_max), rng=S["jax"].random.PRNGKey(int(key)), num_episodes=int(episodes))
    return g


def check_generated(spec, nodes, g, ts_max, where):
    plain = to_plain(g)
    E = next(iter(plain["vertices"].values()))["seq"].shape[0]
    fd = R.check_graph(spec, plain, [float(ts_max)] * E, where)
    nx_check(g, plain, nodes, fd, where)
    if R.spec_is_deterministic(spec) and E > 1:
        # nothing random in the configuration: all episodes must coincide
        for a in list(plain["vertices"].values()) + list(plain["edges"].values()):
            for arr in a.values():
                fd.cmp()
                if not all((arr[e] == arr[0]).all() for e in range(1, E)):
                    fd.bad("graph:episodes-differ-without-randomness", where=where)
    return plain, fd


# ------------------------------------------------------------------------------------------------
# augmentation
# ------------------------------------------------------------------------------------------------
def _truncate(plain, e):
    """Episode e cut down to its valid steps / sent messages (what a recorded episode looks like)."""
    V = {}
    for n, a in plain["vertices"].items():
        K = int((a["seq"][e] >= 0).sum())
        V[n] = {k: a[k][e][:K] for k in a}
    Ed = {}
    for key, a in plain["edges"].items():
        M = int((a["seq_out"][e] >= 0).sum())
        Ed[key] = {k: a[k][e][:M] for k in a}
    return V, Ed


def _pad_stack(items):
    L = max(len(x) for x in items)
    return onp.stack([onp.pad(x, (0, L - len(x)), constant_values=-1) for x in items], axis=0)


def make_present(variant, base_graph, base_plain, short_plain, P, kept):
    """The already-present graph handed to augment_graphs, as (rex Graph, plain dict, batched?)."""
    from rex.base import Edge, Graph, Vertex

    if variant == "raw":
        vertices = {n: base_graph.vertices[n] for n in P}
        edges = {tuple(k.split(">")): base_graph.edges[tuple(k.split(">"))] for k in kept}
    elif variant == "single":
        vertices = {n: Vertex(seq=base_graph.vertices[n].seq[0], ts_start=base_graph.vertices[n].ts_start[0], ts_end=base_graph.vertices[n].ts_end[0]) for n in P}
        edges = {}
        for k in kept:
            ed = base_graph.edges[tuple(k.split(">"))]
            edges[tuple(k.split(">"))] = Edge(seq_out=ed.seq_out[0], seq_in=ed.seq_in[0], ts_recv=ed.ts_recv[0])
    elif variant == "ragged":
        (V0, E0), (V1, E1) = _truncate(base_plain, 0), _truncate(short_plain, 0)
        vertices = {n: Vertex(**{f: _pad_stack([V0[n][f], V1[n][f]]) for f in ("seq", "ts_start", "ts_end")}) for n in P}
        edges = {tuple(k.split(">")): Edge(**{f: _pad_stack([E0[k][f], E1[k][f]]) for f in ("seq_out", "seq_in", "ts_recv")}) for k in kept}
    else:
        raise ValueError(variant)
    return Graph(vertices=vertices, edges=edges)


def _same_bits(a, b):
    a, b = onp.asarray(a), onp.asarray(b)
    return a.dtype == b.dtype and a.shape == b.shape and a.tobytes() == b.tobytes()


def check_augmented(spec, nodes, present, result, P, kept, where):
    fd = R.Findings()
    names = [n["name"] for n in spec["nodes"]]
    keys = [R.ekey(e["o"], e["n"]) for e in spec["edges"]]
    got_v, got_e = sorted(result.vertices.keys()), sorted(R.ekey(*k) for k in result.edges.keys())
    fd.cmp(2)
    if got_v != sorted(set(names) | set(P)):
        fd.bad("augment:node-set", where=where, got=got_v, expected=sorted(names))
    if got_e != sorted(set(keys) | set(kept)):
        fd.bad("augment:edge-set", where=where, got=got_e, expected=sorted(keys))
    if fd.items:
        return fd
    # every pre-existing array bit-identical
    for n in P:
        for f in ("seq", "ts_start", "ts_end"):
            fd.cmp()
            if not _same_bits(getattr(present.vertices[n], f), getattr(result.vertices[n], f)):
                fd.bad("augment:existing-vertex-changed", where=where, node=n, field=f, before=onp.asarray(getattr(present.vertices[n], f)).tolist(),
                       after=onp.asarray(getattr(result.vertices[n], f)).tolist())
    for k in kept:
        t = tuple(k.split(">"))
        for f in ("seq_out", "seq_in", "ts_recv"):
            fd.cmp()
            if not _same_bits(getattr(present.edges[t], f), getattr(result.edges[t], f)):
                fd.bad("augment:existing-edge-changed", where=where, edge=k, field=f, before=onp.asarray(getattr(present.edges[t], f)).tolist(),
                       after=onp.asarray(getattr(result.edges[t], f)).tolist())
    # the added parts: same oracle as for generation, horizon = "the maximum ts_end in the graphs" (docstring of _generate_graphs), per episode
    pp = to_plain(present)
    H = onp.max(onp.stack([a["ts_end"].max(axis=1) for a in pp["vertices"].values()], axis=0), axis=0)
    H = onp.maximum(H, 0.0)
    plain = to_plain(result)
    new_nodes = set(names) - set(P)
    new_edges = set(keys) - set(kept)
    fd2 = R.check_graph(spec, plain, [float(h) for h in H], where, new_nodes=new_nodes, new_edges=new_edges)
    fd.items += fd2.items
    for k, v in fd2.n.items():
        fd.n[k] += v
    nx_check(result, plain, nodes, fd, where)
    # information only: the derived horizon counts masked slots of the present graph, so added nodes may run past the last valid step
    last_valid = [max([float(a["ts_end"][e][a["seq"][e] >= 0].max()) if (a["seq"][e] >= 0).any() else 0.0 for a in pp["vertices"].values()]) for e in range(len(H))]
    fd.n["aug_horizon_beyond_last_valid_end"] = int(sum(1 for e in range(len(H)) if float(H[e]) > last_valid[e] and new_nodes))
    return fd


# ------------------------------------------------------------------------------------------------
# group runner (Pool task)
# ------------------------------------------------------------------------------------------------
def _emit(out, group, fd, case, ncalls=1):
    out["calls"] += ncalls
    for k, v in fd.n.items():
        out["n"][k] = out["n"].get(k, 0) + v
    seen = set()
    for sig, detail in fd.items:
        full = f"{sig}@{case['kind']}"
        out["violation_count"][full] = out["violation_count"].get(full, 0) + 1
        if full in seen or detail is None:
            continue
        seen.add(full)
        out["violations"].append(dict(signature=full, what=dict(group=group["id"], case=case, detail=detail), replay=dict(group=group, case=case)))


def _f32_neighbours(x):
    x = onp.float32(x)
    return float(onp.nextafter(x, onp.float32(-onp.inf))), float(x), float(onp.nextafter(x, onp.float32(onp.inf)))


def run_group(group):
    """T0 run, landing horizons, augmentation plan.  Returns counters + violations (with replay bodies)."""
    spec = F.make_spec(group["topo"], tuple(group["rates"]), group["kind"], group["variant"])
    nodes = build_nodes(spec)
    out = dict(id=group["id"], calls=0, n={}, violations=[], violation_count={}, landed=0, horizons=0, aug_cases=0, identity_aug=0, sample=None)
    T0, key, eps = group["T0"], group["key"], group["episodes"]
    g0 = generate(nodes, T0, key, eps)
    p0, fd = check_generated(spec, nodes, g0, T0, "T0")
    _emit(out, group, fd, dict(kind="gen", ts_max=T0))
    out["horizons"] += 1
    names = [n["name"] for n in spec["nodes"]]
    for (ni, k) in group["targets"]:
        a = p0["vertices"][names[ni]]
        if k >= a["seq"].shape[1]:
            continue
        for h in _f32_neighbours(a["ts_end"][0][k]):
            g = generate(nodes, h, key, eps)
            p, fd = check_generated(spec, nodes, g, h, f"h={h!r}")
            _emit(out, group, fd, dict(kind="gen", ts_max=h))
            out["horizons"] += 1
            # did the horizon land exactly on the end of a valid vertex (episode 0)?
            if any(((x["ts_end"][0] == onp.float32(h)) & (x["seq"][0] >= 0)).any() for x in p["vertices"].values()):
                out["landed"] += 1
    out["sample"] = dict(group=group["id"], spec=spec, ts_max=T0, episodes=eps,
                         vertices_ep0={n: [int((a["seq"][0] >= 0).sum()), a["ts_start"][0][:4].tolist()] for n, a in p0["vertices"].items()},
                         edges_ep0={k: a["seq_in"][0][:8].tolist() for k, a in p0["edges"].items()})
    if group.get("aug"):
        plan = group["aug"]
        for ci, case in enumerate(aug_cases(spec, plan)):
            if ci % 8 == 7:
                _release()
            fd, ncalls = run_aug_case(spec, nodes, group, case, _cache=out.setdefault("_cache", {}))
            _emit(out, group, fd, case, ncalls=ncalls)
            out["aug_cases"] += 1
            if len(case["present"]) == len(names) and len(case["kept"]) == len(spec["edges"]):
                out["identity_aug"] += 1
        out.pop("_cache", None)
    _release()
    return out


def _release():
    """Every call of generate_graphs leaves ~20 MB of compiled closures behind; bound the memory of a long-lived worker."""
    import gc

    _setup()["jax"].clear_caches()
    gc.collect()


def worker_init(env):
    os.environ.update(env)
    from vf.common import setup_env

    setup_env()


def aug_cases(spec, plan):
    cases = []
    for variant in plan["variants"]:
        for P, kept in F.splits(spec, plan["edge_mode"]):
            cases.append(dict(kind="aug", variant=variant, present=P, kept=kept, episodes=plan["episodes"]))
    return cases


def run_aug_case(spec, nodes, group, case, _cache=None):
    from rex.artificial import augment_graphs

    S = _setup()
    _cache = {} if _cache is None else _cache
    ncalls = 1
    ck = ("base", case["episodes"])
    if ck not in _cache:
        g = generate(nodes, group["T0"], group["key"] + 17, case["episodes"])
        gs = generate(nodes, group["T0"] * 0.5, group["key"] + 29, 1)
        _cache[ck] = (g, to_plain(g), to_plain(gs))
        ncalls += 2
    base_graph, base_plain, short_plain = _cache[ck]
    present = make_present(case["variant"], base_graph, base_plain, short_plain, case["present"], case["kept"])
    result = augment_graphs(present, nodes, rng=S["jax"].random.PRNGKey(int(group["key"]) + 41))
    where = f"aug[{case['variant']};present={','.join(case['present'])};kept={','.join(case['kept'])}]"
    fd = check_augmented(spec, nodes, present, result, case["present"], case["kept"], where)
    return fd, ncalls


def run_case(arg):
    """Replay of a single case: (group, case) -> list of (signature, detail)."""
    group, case = arg
    spec = F.make_spec(group["topo"], tuple(group["rates"]), group["kind"], group["variant"])
    nodes = build_nodes(spec)
    if case["kind"] == "gen":
        g = generate(nodes, case["ts_max"], group["key"], group["episodes"])
        _, fd = check_generated(spec, nodes, g, case["ts_max"], f"h={case['ts_max']!r}")
    else:
        fd, _ = run_aug_case(spec, nodes, group, case)
    return [(f"{s}@{case['kind']}", d) for s, d in fd.items]
