"""C14 worker: conversions, stacking, padding, filtering of records and graphs against reference sets."""
import itertools

import numpy as onp


def _sets_from_summary(rec):
    V, E = set(), set()
    for n, nr in rec.items():
        st = nr["steps"]
        for k, s in enumerate(st["seq"]):
            V.add((n, int(s), float(st["ts_start"][k]), float(st["ts_end"][k])))
        for o, ms in nr["inputs"].items():
            for j in range(len(ms["seq_out"])):
                E.add((o, int(ms["seq_out"][j]), n, int(ms["seq_in"][j]), float(ms["ts_recv"][j])))
    return V, E


def _sets_from_py(ep):
    V = {(k, s, a, b) for k, v in ep["vertices"].items() for (s, a, b) in v}
    E = {(o, so, n, si, tr) for (o, n), v in ep["edges"].items() for (so, si, tr) in v}
    return V, E


def _sets_from_graph(g):
    from vf.refcomp import graphs_to_py

    eps = graphs_to_py(g)
    assert len(eps) == 1
    return _sets_from_py(eps[0])


def _padding_ok(g, i, n_real_v, n_real_e):
    """every padded entry of episode i of a stacked graph is -1 in all fields; the real ones come first"""
    bad = []
    for k, v in g.vertices.items():
        seq, a, b = onp.asarray(v.seq)[i], onp.asarray(v.ts_start)[i], onp.asarray(v.ts_end)[i]
        n = n_real_v[k]
        if not (onp.all(seq[n:] == -1) and onp.all(a[n:] == -1) and onp.all(b[n:] == -1)):
            bad.append(("vertex-padding", k, seq[n:].tolist()[:4], a[n:].tolist()[:4]))
    for k, e in g.edges.items():
        so, si, tr = onp.asarray(e.seq_out)[i], onp.asarray(e.seq_in)[i], onp.asarray(e.ts_recv)[i]
        n = n_real_e[tuple(k)]
        if not (onp.all(so[n:] == -1) and onp.all(si[n:] == -1) and onp.all(tr[n:] == -1)):
            bad.append(("edge-padding", k, so[n:].tolist()[:4], tr[n:].tolist()[:4]))
    return bad


def _nx_sets(G):
    V = {(d["kind"], int(d["seq"]), float(d["ts_start"]), float(d["ts_end"])) for _, d in G.nodes(data=True)}
    names = {n: (d["kind"], int(d["seq"])) for n, d in G.nodes(data=True)}
    E = {(names[u], names[v]) for u, v in G.edges()}
    name_ok = all(n == f"{k}_{s}" for n, (k, s) in names.items())
    return V, E, name_ok


def _expected_nx_edges(V, E):
    have = {(k, s) for (k, s, _, _) in V}
    ex = {((o, so), (n, si)) for (o, so, n, si, _) in E if si >= 0 and so >= 0}
    ex |= {((k, s - 1), (k, s)) for (k, s) in have if s > 0}
    return ex


def _c14_task(arg):
    from vf.common import import_rex

    import_rex()
    import jax

    from rex.base import ExperimentRecord, Graph
    from rex.utils import to_networkx_graph
    from vf.fcomp import py_to_graph
    from vf.probes import build_nodes

    src = arg["src"]
    out = dict(name=src["name"], instances=0, states=0, transitions=0, traces=0, violations=[], skipped=None)
    errs = []

    def err(sig, *d):
        if len(errs) < 12:
            errs.append((sig, d))

    nodes, sup = build_nodes(src["spec"], xp="np")
    names = list(nodes)
    if src["kind"] == "async":
        from vf.asyncx import run_job

        res = run_job(dict(spec=src["spec"], user=src["user"], policy=src.get("policy", "prio")), keep_graph=True)
        eps = [ep for ep in res["episodes"] if "record" in ep and ep.get("_rexrec") is not None]
        if not res["finished"] or not eps:
            out["skipped"] = "threaded job unfinished / not convertible"
            return out
        ref = [_sets_from_summary(ep["record"]) for ep in eps]
        recs = [ep["_rexrec"] for ep in eps]
        graphs = []
        for i, r in enumerate(recs):
            g = r.to_graph()
            graphs.append(g)
            out["transitions"] += 1
            if _sets_from_graph(g) != ref[i]:
                err("EpisodeRecord.to_graph", i)
        exp = ExperimentRecord(episodes=recs)
        stacked = exp.to_graph() if len(recs) > 1 else None
        # ExperimentRecord.stack (padded) and indexing an episode back out
        if len(recs) > 1:
            st = exp.stack("padded")
            for i in range(len(recs)):
                out["transitions"] += 1
                ri = st[i]
                for n in names:
                    K = len(eps[i]["record"][n]["steps"]["seq"])
                    seq = onp.asarray(ri.nodes[n].steps.seq)
                    if seq[:K].tolist() != eps[i]["record"][n]["steps"]["seq"] or not onp.all(seq[K:] == -1):
                        err("ExperimentRecord.stack:steps.seq", i, n, seq.tolist())
                    ts = onp.asarray(ri.nodes[n].steps.ts_start)
                    if ts[:K].tolist() != eps[i]["record"][n]["steps"]["ts_start"] or not onp.all(ts[K:] == -1):
                        err("ExperimentRecord.stack:steps.ts_start", i, n)
                    oh = onp.asarray(ri.nodes[n].steps.state.h).reshape(len(seq), -1)[:, 0]
                    if oh[:K].tolist() != eps[i]["record"][n]["steps"]["state_h"]:
                        err("ExperimentRecord.stack:steps.state", i, n)
                    for o, ms in eps[i]["record"][n]["inputs"].items():
                        so = onp.asarray(ri.nodes[n].inputs[o].messages.seq_out)
                        M = len(ms["seq_out"])
                        if so[:M].tolist() != ms["seq_out"] or not onp.all(so[M:] == -1):
                            err("ExperimentRecord.stack:messages.seq_out", i, n, o)
    else:
        from vf.fcomp import materialize
        from vf.refcomp import graphs_to_py

        g_all, _ = materialize(src)
        eps_py = graphs_to_py(g_all)
        ref = [_sets_from_py(ep) for ep in eps_py]
        graphs = [py_to_graph([ep]) for ep in eps_py]
        recs, stacked = None, (g_all if len(eps_py) > 1 else None)
    out["states"] += sum(len(v) + len(e) for v, e in ref)
    n_real_v = [{k: sum(1 for x in V if x[0] == k) for k in names} for V, E in ref]
    n_real_e = [{(e["o"], e["n"]): sum(1 for x in E if (x[0], x[2]) == (e["o"], e["n"])) for e in src["spec"]["edges"]} for V, E in ref]
    # stacking: rex's own stack of all episodes, and Graph.stack of every ordered pair / triple
    combos = []
    idx = list(range(len(graphs)))
    combos += [(i,) for i in idx]  # a stack of one episode is still a stack: batched, length 1, [0] gives the episode back
    for r in (2, 3):
        combos += list(itertools.permutations(idx, r))
    combos = combos[: arg.get("max_stacks", 12)]
    stacks = [("ExperimentRecord.to_graph" if src["kind"] == "async" else "given-stack", tuple(idx), stacked)] if stacked is not None else []
    for c in combos:
        stacks.append(("Graph.stack", c, Graph.stack([graphs[i] for i in c])))
    for tag, c, sg in stacks:
        out["instances"] += 1
        if len(sg) != len(c):
            err(tag + ":len", c, len(sg))
        shp = onp.asarray(next(iter(sg.vertices.values())).seq).shape
        if len(shp) != 2 or shp[0] != len(c):
            err(tag + ":not-batched", c, shp)
            continue
        for pos, i in enumerate(c):
            out["transitions"] += 1
            gi = sg[pos]
            if _sets_from_graph(gi) != ref[i]:
                err(tag + ":episode-extracted-from-stack-differs", c, pos)
            if not (tag == "given-stack" and src["kind"] == "gen"):  # generate_graphs marks vertices beyond ts_max with seq=-1 but keeps their times: not padding
                for b in _padding_ok(sg, pos, n_real_v[i], n_real_e[i]):
                    err(tag + ":" + b[0], c, pos, b[1:])
            G = to_networkx_graph(gi, nodes=nodes, validate=True)
            V, E, name_ok = _nx_sets(G)
            if V != ref[i][0] or not name_ok:
                err(tag + ":to_networkx_graph:vertices", c, pos, sorted(V ^ ref[i][0])[:4])
            if E != _expected_nx_edges(*ref[i]):
                err(tag + ":to_networkx_graph:edges", c, pos, sorted(E ^ _expected_nx_edges(*ref[i]))[:4])
    # filtering: every non-empty subset of the node set x both flags
    for r in range(1, len(names) + 1):
        for sub in itertools.combinations(names, r):
            subn = {k: nodes[k] for k in sub}
            for flag in (True, False):
                for i, g in enumerate(graphs[:2]):
                    out["transitions"] += 1
                    fg = g.filter(subn, filter_edges=flag)
                    V, E = _sets_from_graph(fg) if fg.vertices else (set(), set())
                    expV = {x for x in ref[i][0] if x[0] in sub}
                    expE = {x for x in ref[i][1] if x[0] in sub and x[2] in sub}
                    if set(fg.vertices) != set(sub) or V != expV:
                        err("Graph.filter:vertices", sub, flag, i)
                    if set(map(tuple, fg.edges)) != {(e["o"], e["n"]) for e in src["spec"]["edges"] if e["o"] in sub and e["n"] in sub} or E != expE:
                        err("Graph.filter:edges", sub, flag, i, sorted(map(tuple, fg.edges)))
                    if recs is not None:
                        fr = recs[i].filter(subn, filter_connections=flag)
                        if set(fr.nodes) != set(sub):
                            err("EpisodeRecord.filter:nodes", sub, flag, i)
                        else:
                            V2, E2 = _sets_from_graph(fr.to_graph())
                            if V2 != expV or E2 != expE:
                                err("EpisodeRecord.filter:content", sub, flag, i)
                            for n in sub:
                                if set(fr.nodes[n].info.inputs) != set(fr.nodes[n].inputs):
                                    err("EpisodeRecord.filter:info.inputs", sub, flag, n)
    out["traces"] = out["instances"]
    seen = set()
    for sig, det in errs:
        if sig not in seen:
            seen.add(sig)
            out["violations"].append((sig, dict(detail=det), dict(src=src)))
    return out



def c14_task(arg):
    """an exception raised by the conversion code on a legal input is a violation (the conversion lost everything)"""
    try:
        return _c14_task(arg)
    except Exception as e:  # noqa
        import traceback as tb

        src = arg["src"]
        return dict(name=src["name"], instances=0, states=0, transitions=0, traces=0, skipped=None,
                    violations=[(f"conversion-raised:{type(e).__name__}", dict(exc=repr(e)[:300], tb=tb.format_exc()[-1000:]), dict(src=src))])
