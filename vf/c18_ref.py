"""C18 reference model and judges. Plain numpy / python only: no rex, no jax imports here.

Vocabulary
  candidate   one sampled parameter set, flattened to a D-vector (leaf order "a", "b")
  losses      what the (harness) loss function returned for the N candidates of one iteration
  key         loss with NaN replaced by +inf (the order in which candidates may be preferred)

The *deterministic* reference (`cem_update`) is the boring algorithm: stable sort on key, top-k elites, smoothed mean /
population std of the elites, running best.  The *judge* does not insist on the reference's tie-breaking (the property
does not): an outcome is accepted when SOME k-subset explains the new mean/stdev and that subset is a valid top-k set.
"""
import itertools

import numpy as np

NAN = float("nan")
INF = float("inf")
ALPHABET = (1.0, 2.0, 3.0, NAN, INF)
MARK = -12345.0  # returned by the harness loss for a candidate it cannot place (unknown / out of bounds / NaN)

# float32 arithmetic of a handful of operations on |values| <= ~2 : error is a few ulp (~5e-7); the reference runs in
# float64 on the same float32 inputs.  1e-5 is two orders above that and three below the smallest effect of picking a
# different elite set in the families used here ((1-0.9) * candidate spacing >= 1/64 / k).
TOL = 1e-5


def loss_vectors(n, alphabet=ALPHABET):
    """All alphabet^n loss vectors, itertools.product order, float32 (len(alphabet)**n, n)."""
    return np.array(list(itertools.product(alphabet, repeat=n)), dtype=np.float32)


def key_of(losses):
    losses = np.asarray(losses, dtype=np.float64)
    return np.where(np.isnan(losses), np.inf, losses)


def min_finite(losses, axis=-1):
    """Smallest finite entry along axis, +inf when there is none."""
    losses = np.asarray(losses, dtype=np.float64)
    return np.min(np.where(np.isfinite(losses), losses, np.inf), axis=axis)


# ------------------------------------------------------------------------------------------------
# deterministic reference, vectorised: states (S, .), candidates (S, N, D), losses (S, V, N)
# ------------------------------------------------------------------------------------------------
def cem_update(k, smoothing, mean, stdev, best, best_loss, cands, losses):
    mean, stdev, best = (np.asarray(x, np.float64) for x in (mean, stdev, best))
    best_loss = np.asarray(best_loss, np.float64)
    cands = np.asarray(cands, np.float64)
    key = key_of(losses)  # (S,V,N)
    order = np.argsort(key, axis=-1, kind="stable")  # NaN counted as +inf, ties by index
    elite = order[..., :k]  # (S,V,k)
    el = np.take_along_axis(cands[:, None, :, :], elite[..., None], axis=2)  # (S,V,k,D)
    s = float(smoothing)
    new_mean = s * mean[:, None, :] + (1.0 - s) * el.mean(axis=2)
    new_stdev = s * stdev[:, None, :] + (1.0 - s) * el.std(axis=2)
    bi = elite[..., 0]
    bl = np.take_along_axis(key, bi[..., None], axis=-1)[..., 0]  # (S,V)
    bc = np.take_along_axis(cands[:, None, :, :], bi[..., None, None], axis=2)[:, :, 0, :]  # (S,V,D)
    keep = best_loss[:, None] < bl
    new_best = np.where(keep[..., None], best[:, None, :], bc)
    new_best_loss = np.where(keep, best_loss[:, None], bl)
    return dict(mean=new_mean, stdev=new_stdev, best=new_best, best_loss=new_best_loss, elite=elite)


def fast_best(old_best, old_best_loss, sentinel, cands, losses, new_best, new_best_loss):
    """vectorised twin of judge_best: (S,D) (S,) scalar (S,N,D) (S,V,N) (S,V,D) (S,V) -> ok mask (S,V). exact comparisons."""
    old_l = np.asarray(old_best_loss, np.float64)
    new_l = np.asarray(new_best_loss, np.float64)
    losses = np.asarray(losses, np.float64)
    mf = min_finite(losses)  # (S,V)
    exp = np.minimum(old_l[:, None], mf)
    claim_before = np.isfinite(old_l) & (old_l != float(sentinel))
    claim_now = claim_before[:, None] | np.isfinite(mf)
    mono = ~np.isnan(new_l) & ~(new_l > old_l[:, None])
    loss_ok = mono & np.where(claim_now, new_l == exp, (new_l == old_l[:, None]) | (new_l == np.inf))
    nb = np.asarray(new_best)
    match = np.all(nb[:, :, None, :] == np.asarray(cands)[:, None, :, :], axis=-1)  # (S,V,N)
    allowed = losses == exp[..., None]
    kept = claim_before[:, None] & (old_l[:, None] == exp) & np.all(nb == np.asarray(old_best)[:, None, :], axis=-1)
    cand_ok = np.any(match & allowed, axis=-1) | kept
    return loss_ok & (cand_ok | ~claim_now)


def fast_cem_law(k, smoothing, mean, stdev, best, best_loss, cands, losses, new_mean, new_stdev, tol=TOL):
    """real new mean/stdev equal to the deterministic reference's -> (law_ok (S,V), strict_flag (S,V)).

    law_ok implies the elite set is the reference's (a valid top-k set by construction), so the ranking reading holds;
    strict_flag marks transitions where that set holds a NaN-loss candidate although a finite loss exists (literal reading).
    """
    ref = cem_update(k, smoothing, mean, stdev, best, best_loss, cands, losses)
    law_ok = np.all(np.abs(ref["mean"] - new_mean) <= tol, axis=-1) & np.all(np.abs(ref["stdev"] - new_stdev) <= tol, axis=-1)
    l64 = np.asarray(losses, np.float64)
    el_nan = np.take_along_axis(np.isnan(l64), ref["elite"], axis=-1).any(axis=-1)
    strict = law_ok & el_nan & np.isfinite(l64).any(axis=-1)
    return law_ok, strict


def has_duplicates(cands):
    """(S,N,D) -> (S,) True when two candidates of the iteration are the same point."""
    c = np.asarray(cands)
    eq = np.all(c[:, :, None, :] == c[:, None, :, :], axis=-1)
    n = c.shape[1]
    return (eq.sum(axis=(1, 2)) > n)


# ------------------------------------------------------------------------------------------------
# judges for ONE transition (python, exact, used for every fast-path mismatch and in replay)
# ------------------------------------------------------------------------------------------------
def _same(a, b):
    a, b = np.asarray(a), np.asarray(b)
    return a.shape == b.shape and bool(np.all((a == b) | (np.isnan(a) & np.isnan(b))))


def judge_bounds(cands, lo, hi):
    """every candidate inside [lo, hi] (NaN is outside). returns list of (class, detail)."""
    cands = np.asarray(cands, np.float64)
    bad = ~((cands >= lo) & (cands <= hi))  # NaN -> comparisons False -> bad
    if bad.any():
        i = int(np.argwhere(bad.any(axis=-1))[0][0])
        cls = "candidate-nan" if np.isnan(cands).any() else "candidate-out-of-bounds"
        return [(cls, dict(index=i, candidate=cands[i].tolist(), lo=np.asarray(lo).tolist(), hi=np.asarray(hi).tolist()))]
    return []


def judge_best(old_best, old_best_loss, sentinel, cands, losses, new_best, new_best_loss):
    """best-so-far clauses of the property for one iteration (inductive form, see c18.py docstring)."""
    out = []
    losses = np.asarray(losses, np.float64)
    cands = np.asarray(cands)
    old_l, new_l = float(old_best_loss), float(new_best_loss)
    mf = float(min_finite(losses))
    exp = min(old_l, mf)
    claim_before = np.isfinite(old_l) and old_l != float(sentinel)
    claim_now = claim_before or np.isfinite(mf)
    if np.isnan(new_l) or new_l > old_l:
        out.append(("best-loss-increased", dict(old=old_l, new=new_l, losses=losses.tolist())))
    elif claim_now and new_l != exp:
        out.append(("best-loss-not-min-finite", dict(old=old_l, new=new_l, expected=exp, losses=losses.tolist())))
    elif not claim_now and not (new_l == old_l or new_l == INF):
        out.append(("best-loss-not-min-finite", dict(old=old_l, new=new_l, expected="unchanged (no finite loss seen)", losses=losses.tolist())))
    if claim_now and not out:
        allowed = [cands[i] for i in range(len(losses)) if losses[i] == exp]
        if claim_before and old_l == exp:
            allowed.append(np.asarray(old_best))
        if not any(_same(new_best, c) for c in allowed):
            nan_hit = [i for i in range(len(losses)) if np.isnan(losses[i]) and _same(new_best, cands[i])]
            cls = "nan-selected-as-best" if nan_hit and np.isfinite(mf) else "best-candidate-not-attaining"
            out.append((cls, dict(best=np.asarray(new_best).tolist(), best_loss=new_l, losses=losses.tolist(), candidates=cands.tolist())))
    return out


def judge_cem_elite(k, smoothing, old_mean, old_stdev, cands, losses, new_mean, new_stdev, tol=TOL):
    """Identify the elite set the update used (k-subsets that explain the new mean/stdev) and judge it.

    returns (violations [(class, detail)], observations [(class, detail)])
      violations:   ranking reading (the oracle) - a valid elite set S has max key(S) <= min key(not S)  (NaN == +inf, ties
                    free): a NaN-loss candidate never displaces a finite-loss candidate
      observations: "nan-elite-fill" - S holds a NaN-loss candidate although the iteration has a finite-loss candidate (only
                    possible when fewer than k candidates are non-NaN, or NaN ties +inf).  Counted, never a violation.
    """
    cands64 = np.asarray(cands, np.float64)
    key = key_of(losses)
    n = len(key)
    s = float(smoothing)
    om, osd = np.asarray(old_mean, np.float64), np.asarray(old_stdev, np.float64)
    nm, nsd = np.asarray(new_mean, np.float64), np.asarray(new_stdev, np.float64)
    match_mean, match = [], []
    for S in itertools.combinations(range(n), k):
        el = cands64[list(S)]
        m_ok = np.all(np.abs(s * om + (1 - s) * el.mean(0) - nm) <= tol)
        s_ok = np.all(np.abs(s * osd + (1 - s) * el.std(0) - nsd) <= tol)
        if m_ok:
            match_mean.append(S)
        if m_ok and s_ok:
            match.append(S)
    det = dict(losses=np.asarray(losses, np.float64).tolist(), candidates=cands64.tolist(), new_mean=nm.tolist(), new_stdev=nsd.tolist(), k=k, smoothing=s)
    if not match:
        cls = "stdev-not-smoothed-std-of-elites" if match_mean else "mean-not-smoothed-mean-of-any-k-subset"
        return [(cls, dict(det, subsets_matching_mean=match_mean))], []

    def valid(S):
        rest = [j for j in range(n) if j not in S]
        return (not rest) or max(key[list(S)]) <= min(key[rest])

    good = [S for S in match if valid(S)]
    isnan = np.isnan(np.asarray(losses, np.float64))
    anyfinite = bool(np.isfinite(np.asarray(losses, np.float64)).any())
    if not good:
        S = match[0]
        rest = [j for j in range(n) if j not in S]
        displaced_finite = any(isnan[i] for i in S) and any(np.isfinite(key[j]) for j in rest)
        cls = "nan-elite-over-finite" if displaced_finite else "elite-not-topk"
        return [(cls, dict(det, elite=list(S)))], []
    strict = []
    if anyfinite and all(any(isnan[i] for i in S) for S in good):
        strict.append(("nan-elite-fill", dict(det, elite=list(good[0]))))
    return [], strict
