"""C11 worker: runs the real `TrainableDist.apply_delay` (zoh, linear, linear_real_only, and jax.jacrev of the two linear
variants w.r.t. alpha) on every (pattern, step time, delay) of one configuration and compares with vf.c11_ref."""
import collections

import numpy as np

from vf import c11_ref as R

BATCH = 2048
_FN_CACHE = {}


def _build(rate, mn, mx, W):
    key = (rate, mn, mx, W)
    if key in _FN_CACHE:
        return _FN_CACHE[key]
    from vf.common import import_rex

    import_rex()
    import jax
    from rex.base import InputState, TrainableDist

    fmin, fmax = R.sec(mn), R.sec(mx)
    fnames = [name for name, dt, _ in R.LEAVES if dt == "float32"]

    def make(interp):
        def one(alpha, ts, seq, sent, recv, data):
            dist = TrainableDist(alpha=alpha, min=fmin, max=fmax, interp=interp)
            inp = InputState(seq=seq, ts_sent=sent, ts_recv=recv, data=data, delay_dist=dist)
            out = dist.apply_delay(float(rate), inp, ts)
            return out.seq, out.ts_sent, out.ts_recv, out.data

        return one

    def make_f(interp):
        one = make(interp)

        def fl(alpha, ts, seq, sent, recv, data):
            d = one(alpha, ts, seq, sent, recv, data)[3]
            return {k: d[k] for k in fnames}

        return fl

    def all_three(*a):
        return {k: make(k)(*a) for k in ("zoh", "linear", "linear_real_only")}

    def both_jac(*a):
        return {k: jax.jacrev(make_f(k), argnums=0)(*a) for k in R.VARIANTS}

    # one compiled program per kind (compile time dominates; the three interp branches share one XLA compilation)
    fns = dict(single=jax.jit(all_three), batch=jax.jit(jax.vmap(all_three)), jac=jax.jit(jax.vmap(both_jac)))
    _FN_CACHE[key] = fns
    return fns


def _arrays(p):
    seq = np.array(p["seq"], dtype=np.int32)
    sent = np.array([R.sec(t) for t in p["sent"]], dtype=np.float32)
    recv = np.array([R.sec(t) for t in p["recv"]], dtype=np.float32)
    data = R.stack_payloads(p["mids"])
    return seq, sent, recv, data


def _run_batched(fn, cols, n):
    """cols: tuple (alpha, ts, seq, sent, recv, datadict) of stacked numpy arrays with leading dim n. Pads to BATCH."""
    import jax

    outs = []
    for lo in range(0, n, BATCH):
        hi = min(n, lo + BATCH)
        idx = np.arange(lo, lo + BATCH)
        idx[idx >= hi] = hi - 1
        part = jax.tree_util.tree_map(lambda x: x[idx], cols)
        o = fn(*part)
        o = jax.tree_util.tree_map(lambda x: np.asarray(x)[: hi - lo], o)
        outs.append(o)
    return jax.tree_util.tree_map(lambda *xs: np.concatenate(xs, axis=0), *outs)


def _flat_out(o):
    """(seq, ts_sent, ts_recv, data dict) with leading (n, W, ...) -> seq, ts_sent, ts_recv, flat data (n, W, P) float64."""
    seq, s, r, data = o
    n, W = seq.shape
    fl = np.concatenate([np.asarray(data[name], dtype=np.float64).reshape(n, W, -1) for name, _, _ in R.LEAVES], axis=2)
    return np.asarray(seq), np.asarray(s, dtype=np.float64), np.asarray(r, dtype=np.float64), fl


def _flat_jac(j):
    fn = [name for name, dt, _ in R.LEAVES if dt == "float32"]
    n, W = j[fn[0]].shape[:2]
    return np.concatenate([np.asarray(j[k], dtype=np.float64).reshape(n, W, -1) for k in fn], axis=2)


class _Viol:
    def __init__(self, cfg, cap=2):
        self.cfg, self.cap = cfg, cap
        self.count = collections.Counter()
        self.items = []

    def add(self, sig, what, p, ts):
        self.count[sig] += 1
        if self.count[sig] <= self.cap:
            what = dict(what)
            what.update(config=self.cfg, pattern=p["name"], ts_sent=[R.sec(t) for t in p["sent"]], seq=p["seq"], ts_start=R.sec(ts))
            self.items.append((sig, what, dict(cfg=self.cfg, pattern=p, ts=ts)))


def _sig_norealarrived(ts):
    return "no-real-arrived:linear_real_only:" + ("ts_start>=32s" if R.sec(ts) >= 32 else "ts_start<32s")


def check_groups(cfg, groups, stats, viol, gate=True):
    """groups: list of (pattern, ts ticks). Runs the real code on every delay point of every group and compares."""
    rate, mn, mx, W = cfg["rate"], cfg["min"], cfg["max"], cfg["W"]
    fns = _build(rate, mn, mx, W)
    span_s = R.sec(mx - mn)
    T_s = 1.0 / rate
    # ---- flatten the cases
    rows, gidx = [], []
    for gi, (p, ts) in enumerate(groups):
        pts, dropped, nbp, nreg = R.delay_points(p, ts, mn, mx)
        stats["points_dropped_inexact_alpha"] += dropped
        stats["breakpoints"] += nbp
        stats["regions"] += nreg
        gidx.append((len(rows), len(rows) + len(pts), pts))
        arr = _arrays(p)
        for d, alpha, tags in pts:
            rows.append((np.float32(alpha), np.float32(R.sec(ts)), arr))
    n = len(rows)
    if n == 0:
        return
    cols = (
        np.array([r[0] for r in rows], dtype=np.float32),
        np.array([r[1] for r in rows], dtype=np.float32),
        np.stack([r[2][0] for r in rows]),
        np.stack([r[2][1] for r in rows]),
        np.stack([r[2][2] for r in rows]),
        {name: np.stack([r[2][3][name] for r in rows]) for name, _, _ in R.LEAVES},
    )
    raw = _run_batched(fns["batch"], cols, n)
    # dtype / shape restoration (static per compiled function: checked on the arrays that came back)
    for v in R.VARIANTS:
        seq_o, s_o, r_o, data_o = raw[v]
        bad = []
        if seq_o.dtype != np.int32 or seq_o.shape != (n, W):
            bad.append(f"seq {seq_o.dtype}{seq_o.shape}")
        for nm, x in (("ts_sent", s_o), ("ts_recv", r_o)):
            if x.dtype != np.float32 or x.shape != (n, W):
                bad.append(f"{nm} {x.dtype}{x.shape}")
        for name, dt, sh in R.LEAVES:
            if data_o[name].dtype != np.dtype(dt) or data_o[name].shape != (n, W) + tuple(sh):
                bad.append(f"{name} {data_o[name].dtype}{data_o[name].shape}")
        stats["dtype_shape_checks"] += 3 + len(R.LEAVES)
        if bad:
            viol.add(f"dtype:{v}", dict(clause="dtype/shape of the delayed window equals the input's (window entries)", got=bad), groups[0][0], groups[0][1])
    out = {k: _flat_out(raw[k]) for k in raw}
    # gate: the vmapped function is the per-call function (24 cases spread over the first slice of the configuration's first task)
    if gate:
        import jax

        for i in sorted({int(x) for x in np.linspace(0, n - 1, 24)}):
            one = jax.tree_util.tree_map(lambda x: x[i], cols)
            o1 = jax.tree_util.tree_map(np.asarray, fns["single"](*one))
            ob = jax.tree_util.tree_map(lambda x: x[i], raw)
            # not bitwise: the two XLA programs may fuse/round differently by an ulp, and the integer cast turns an ulp around an
            # integer value into a difference of 1 (observed: -2.9999998 vs -3.0 -> -2 vs -3)
            same = all(
                a.dtype == b.dtype and a.shape == b.shape and np.all(np.abs(a.astype(np.float64) - b.astype(np.float64)) <= (1.0 if a.dtype.kind in "iu" else R.TOL_BY_DTYPE.get(str(a.dtype), R.TOL_F)))
                for a, b in zip(jax.tree_util.tree_leaves(o1), jax.tree_util.tree_leaves(ob))
            )
            stats["vmap_gate_cases"] += 3
            if not same:
                from vf.common import HarnessError

                raise HarnessError(f"vmapped apply_delay differs from the per-call function (case {i}, cfg {cfg})")
    # jacobians at the interior points of every region and at both bounds (alpha == 0 and alpha == 1)
    jrows = [i for (lo, hi, pts) in gidx for i, pt in zip(range(lo, hi), pts) if "interior" in pt[2] or "bound" in pt[2]]
    jac = {}
    if jrows:
        import jax

        jcols = jax.tree_util.tree_map(lambda x: x[np.array(jrows)], cols)
        jraw = _run_batched(fns["jac"], jcols, len(jrows))
        for v in R.VARIANTS:
            jac[v] = _flat_jac(jraw[v])
    jpos = {r: k for k, r in enumerate(jrows)}
    # ---- compare
    for gi, (p, ts) in enumerate(groups):
        lo, hi, pts = gidx[gi]
        _compare_group(cfg, p, ts, pts, lo, out, jac, jpos, span_s, T_s, stats, viol)


def _unscramble(x, W):
    """x (n, W, P) in LEAVES order (or the float leaves only). Inverse of 'result of shape (P_leaf, W) reshaped to (W, P_leaf) without
    a transpose', leaf by leaf; used only to *classify* a wrong window (and to keep checking the other clauses behind it)."""
    n = x.shape[0]
    out = x.copy()
    leaves = R.LEAVES if x.shape[2] == len(R.IS_INT) else [l for l in R.LEAVES if l[1] == "float32"]
    a = 0
    for _, _, sh in leaves:
        P = int(np.prod(sh)) if sh else 1
        if P > 1 and W > 1:
            out[:, :, a : a + P] = x[:, :, a : a + P].reshape(n, P, W).transpose(0, 2, 1)
        a += P
    return out


def _entries_fail(m, obs_row, W):
    """Indices j (0 newest) whose observed value is not the statement's value (nominal spacing; the variant's convention where no period exists)."""
    bad = []
    for j, ent in enumerate(m):
        if ent["skip"]:
            continue
        spec = ent["nom"] if ent["nom"] is not None else ent["reals"][0]
        if not R.entry_ok(obs_row[W - 1 - j], spec):
            bad.append(j)
    return bad


def _unexplained(m, obs_row, W):
    """Failing entries that are not of the 'realised instead of nominal spacing' kind."""
    return [j for j in _entries_fail(m, obs_row, W)
            if not (m[j]["nom"] is not None and m[j]["irregular"] and any(R.entry_ok(obs_row[W - 1 - j], q) for q in m[j]["reals"]))]


def _compare_group(cfg, p, ts, pts, lo, out, jac, jpos, span_s, T_s, stats, viol):
    W, mn = cfg["W"], cfg["min"]
    seq = np.array(p["seq"])
    sent = np.array([R.sec(t) for t in p["sent"]])
    recv = np.array([R.sec(t) for t in p["recv"]])
    data = R.flat(R.stack_payloads(p["mids"]))
    ts_s = R.sec(ts)
    stats["groups"] += 1
    by_d = {d: k for k, (d, _, _) in enumerate(pts)}
    npts = len(pts)
    z_seq, z_s, z_r, z_d = (x[lo : lo + npts] for x in out["zoh"])
    for variant in R.VARIANTS:
        o_seq, o_s, o_r, o_d = (x[lo : lo + npts] for x in out[variant])
        o_d = o_d.copy()
        o_alt = _unscramble(o_d, W)
        models = []
        scrambled = np.zeros(npts, dtype=bool)
        # ---- clause 1: every entry is the sender's signal at its sample time and lies within the neighbouring messages
        for k, (d, alpha, tags) in enumerate(pts):
            d_s = R.sec(d)
            m = R.window_model(variant, seq, sent, recv, data, d_s, ts_s, W, T_s)
            models.append(m)
            stats["cases"] += 1
            stats["entry_comparisons"] += sum(1 for ent in m if not ent["skip"])
            stats["entries_undecided_short_window_with_dummies"] += sum(1 for ent in m if ent["skip"])
            bad = _entries_fail(m, o_d[k], W)
            if not bad:
                continue
            if W > 1 and _unexplained(m, o_d[k], W) and not _unexplained(m, o_alt[k], W):
                scrambled[k] = True
                o_d[k] = o_alt[k]
                viol.add(f"window-scrambled:nonscalar-payload:{variant}", dict(
                    clause="window entry = sender signal at its sample time", interp=variant, d=d_s, alpha=alpha,
                    note="for payload leaves with more than one element the (window, elements) block comes back as the (elements, window) block reshaped without a transpose",
                    observed_window_oldest_first=out[variant][3][lo + k].tolist(), expected_newest=m[0]["nom"][0].tolist() if m[0]["nom"] is not None else None), p, ts)
                bad = _entries_fail(m, o_d[k], W)
            for j in bad:
                ent = m[j]
                v = o_d[k, W - 1 - j]
                spec = ent["nom"] if ent["nom"] is not None else ent["reals"][0]
                info = dict(clause="window entry = sender signal at (ts_start - d) - j periods, within its neighbouring messages", interp=variant, d=d_s, alpha=alpha,
                            entry_back_from_newest=j, observed=v.tolist(), expected_lo=spec[0].tolist(), expected_hi=spec[1].tolist())
                if ent["nom"] is not None and ent["irregular"] and any(R.entry_ok(v, q) for q in ent["reals"]):
                    stats["irregular_spacing_older_entry_mismatches"] += 1
                    info["note"] = "observation equals the signal sampled at the realised message spacing instead of one sender period"
                    viol.add(f"irregular-spacing:older-entry:sample-time:{variant}", info, p, ts)
                elif variant == "linear_real_only" and not ent["e_real"]:
                    viol.add(_sig_norealarrived(ts), info, p, ts)
                else:
                    viol.add(f"value:{variant}:{'newest' if j == 0 else 'older'}", info, p, ts)
        # ---- clause 2: zero-order-hold coincidence (the delayed arrival of a real message is exactly the step time)
        for k, (d, alpha, tags) in enumerate(pts):
            d_s = R.sec(d)
            m = models[k]
            idxs, a = R.zoh_window(seq, sent, recv, d_s, ts_s, W)
            e = idxs[-1]
            if m[0]["short"] or not (seq[e] >= 0 and a[e] == ts_s) or p["discont"]:
                continue
            stats["zoh_coincidences"] += 1
            if not (np.array_equal(z_d[k], data[idxs]) and np.array_equal(z_seq[k], seq[idxs])):
                viol.add("zoh-branch-differs-from-reference", dict(clause="zoh window = last arrived messages", d=d_s, observed=z_d[k].tolist(), expected=data[idxs].tolist()), p, ts)
            for j, ent in enumerate(m):
                if j > 0 and (ent["dummy"] or ent["irregular"] or ent["skip"]):
                    continue  # the statement only fixes the newest entry and entries a whole number of periods before a message
                i = W - 1 - j
                same = np.array_equal(o_d[k, i], z_d[k, i]) and np.array_equal(o_d[k, i], data[idxs[i]])
                sl = idxs[i]
                if not ((sl > 0 and a[sl - 1] == a[sl]) or (sl + 1 < len(a) and a[sl + 1] == a[sl])):  # two messages arriving together: which seq/ts is "the" message is not fixed
                    same = same and o_seq[k, i] == z_seq[k, i] and o_s[k, i] == z_s[k, i] and o_r[k, i] == z_r[k, i]
                stats["zoh_entry_comparisons"] += 1
                if not same:
                    viol.add(f"zoh-coincidence:{variant}", dict(
                        clause="equals the zoh result when ts_start - d hits a message", interp=variant, d=d_s, entry_back_from_newest=j,
                        observed=dict(seq=int(o_seq[k, i]), ts_sent=float(o_s[k, i]), ts_recv=float(o_r[k, i]), data=o_d[k, i].tolist()),
                        zoh=dict(seq=int(z_seq[k, i]), ts_sent=float(z_s[k, i]), ts_recv=float(z_r[k, i]), data=z_d[k, i].tolist())), p, ts)
        # ---- clause 3: gradient inside the regions, and at the bounds alpha == 0 / alpha == 1 against the one-sided finite difference
        # taken inside [min, max] (there the reference is also evaluated one step outside the range, only to decide whether the
        # signal is differentiable at the query time; a bound where ts_start - d sits on a message is skipped and counted)
        for k, (d, alpha, tags) in enumerate(pts):
            if not ("interior" in tags or "bound" in tags) or (lo + k) not in jpos:
                continue
            at_bound = "bound" in tags
            side = 0 if not at_bound else (1 if d == mn else -1)  # +1: forward difference (d = min), -1: backward (d = max)
            d_s = R.sec(d)
            m = models[k]
            g_obs = jac[variant][jpos[lo + k]]  # (W, Pf)
            if scrambled[k]:
                g_obs = _unscramble(g_obs[None], W)[0]
            mp = R.window_model(variant, seq, sent, recv, data, d_s + R.FD_H, ts_s, W, T_s)
            mm = R.window_model(variant, seq, sent, recv, data, d_s - R.FD_H, ts_s, W, T_s)
            for j, ent in enumerate(m):
                if ent["skip"] or mp[j]["skip"] or mm[j]["skip"]:
                    continue

                def fd(c, f, b):
                    c, f, b = c[0][R.IS_F], f[0][R.IS_F], b[0][R.IS_F]
                    fwd, bwd = (f - c) / R.FD_H * span_s, (c - b) / R.FD_H * span_s
                    smooth = np.abs(fwd - bwd) <= 1e-3 * np.maximum(1.0, np.abs(fwd))
                    g = (f - b) / (2 * R.FD_H) * span_s if side == 0 else (fwd if side > 0 else bwd)
                    ok = np.abs(g_obs[W - 1 - j] - g) <= R.TOL_G_REL * np.maximum(1.0, np.abs(g))
                    return smooth, ok, g

                if ent["nom"] is not None and mp[j]["nom"] is not None and mm[j]["nom"] is not None:
                    smooth, ok, g = fd(ent["nom"], mp[j]["nom"], mm[j]["nom"])
                    is_nom = True
                else:
                    smooth, ok, g = fd(ent["reals"][0], mp[j]["reals"][0], mm[j]["reals"][0])
                    is_nom = False
                if at_bound:
                    stats["gradient_at_bound_comparisons"] += int(smooth.any())
                    stats["gradient_at_bound_nonzero_slope"] += int(bool(np.any(smooth & (np.abs(g) > 1e-3))))
                    stats["gradient_at_bound_skipped_on_message"] += int(not smooth.all())
                stats["gradient_comparisons"] += int(smooth.any())  # entries (each: all float elements), like the other clause counters
                stats["gradient_elements_compared"] += int(smooth.sum())
                stats["gradient_skipped_at_kinks"] += int((~smooth).sum())
                if np.all(ok | ~smooth):
                    continue
                info = dict(clause="d(entry)/d(alpha) = finite difference of the reference inside the region" if not at_bound else
                            "d(entry)/d(alpha) at alpha in {0,1} = one-sided finite difference of the reference taken inside [min,max]", interp=variant, d=d_s, alpha=alpha, entry_back_from_newest=j,
                            observed=g_obs[W - 1 - j].tolist(), expected=g.tolist())
                alt_ok = False
                if is_nom and ent["irregular"]:
                    for q in range(len(ent["reals"])):
                        if q < len(mp[j]["reals"]) and q < len(mm[j]["reals"]):
                            s2, ok2, _ = fd(ent["reals"][q], mp[j]["reals"][q], mm[j]["reals"][q])
                            alt_ok = alt_ok or bool(np.all(ok2 | ~s2))
                if alt_ok:
                    viol.add(f"irregular-spacing:older-entry:gradient:{variant}", info, p, ts)
                elif variant == "linear_real_only" and not ent["e_real"]:
                    viol.add(_sig_norealarrived(ts), info, p, ts)
                else:
                    viol.add(f"gradient{'-at-bound' if at_bound else ''}:{variant}:{'newest' if j == 0 else 'older'}", info, p, ts)
        # ---- clause 4: continuity on the lattice: |f(d +- eps) - f(d)| <= L*eps across every lattice point (real outputs only)
        if p["discont"]:
            continue
        for k, (d, alpha, tags) in enumerate(pts):
            if "lattice" not in tags:
                continue
            for sgn in (-1, 1):
                k2 = None
                for e_t in (R.EPS_T, 3):
                    kk = by_d.get(d + sgn * e_t)
                    if kk is not None and "eps" in pts[kk][2]:
                        k2 = kk
                        break
                if k2 is None:
                    continue
                eps_s = R.sec(abs(pts[k2][0] - d))
                L = 2 * R.max_slope(variant, seq, sent, recv, data, R.sec(d))
                m0, m1 = models[k], models[k2]
                for j in range(W):
                    if m0[j]["skip"] or m1[j]["skip"] or (j > 0 and (m0[j]["dummy"] or m1[j]["dummy"])):
                        continue  # start-up slots showing dummy messages: no sender signal to be continuous in
                    v0, v1 = o_d[k, W - 1 - j], o_d[k2, W - 1 - j]
                    bound = L * eps_s + np.where(R.IS_INT, 1.0, 2 * R.TOLV)
                    stats["continuity_comparisons"] += 1
                    if np.all(np.abs(v1 - v0) <= bound):
                        continue
                    info = dict(clause="|f(d+eps) - f(d)| <= slope*eps across a breakpoint", interp=variant, d=R.sec(d), d_eps=R.sec(pts[k2][0]), entry_back_from_newest=j,
                                f_d=v0.tolist(), f_d_eps=v1.tolist(), bound=np.broadcast_to(bound, v0.shape).tolist())
                    if (j > 0 and (m0[j]["irregular"] or m1[j]["irregular"]) and any(R.entry_ok(v0, q) for q in m0[j]["reals"])
                            and any(R.entry_ok(v1, q) for q in m1[j]["reals"])):
                        # both observations are the signal sampled at the realised spacing of the window's messages: the jump is the
                        # change of that spacing when the window membership changes
                        viol.add(f"irregular-spacing:older-entry:discontinuous:{variant}", info, p, ts)
                    elif variant == "linear_real_only" and not (m0[j]["e_real"] and m1[j]["e_real"]):
                        viol.add(_sig_norealarrived(ts), info, p, ts)
                    else:
                        viol.add(f"discontinuous:{variant}:{'newest' if j == 0 else 'older'}", info, p, ts)


def run_task(arg):
    """Pool task: one configuration (or a chunk of its patterns)."""
    cfg = arg["cfg"]
    rate, mn, mx, W = cfg["rate"], cfg["min"], cfg["max"], cfg["W"]
    pats, info = R.patterns(rate, mn, mx, W, arg["tier"], arg["seed"])
    pats = pats[arg["chunk"] :: arg["nchunks"]]
    stats = collections.Counter()
    viol = _Viol(cfg)
    groups = []
    heavy = arg["tier"] == "quick" and rate * (mx - mn) >= 4 * R.U  # 32 Hz x [0,8/64]: 17 lattice points per group, buffers of 5-7
    gi = 0
    for p in pats:
        if not R.check_monotone(p, mn, mx):
            from vf.common import HarnessError

            raise HarnessError(f"pattern {p['name']} is not in arrival order")
        for ts in R.step_times(p, mn):
            gi += 1
            if heavy and p["name"].startswith("jitter") and (gi + arg["seed"]) % 3 != 0:
                stats["groups_skipped_quick_slice"] += 1
                continue  # quick tier: VERIF_SEED-rotated third of the (jittered pattern, step time) groups of the heaviest configurations
            groups.append((p, ts))
    stats["patterns"] = len(pats)
    # bounded memory: process in slices of groups
    for i in range(0, len(groups), 400):
        check_groups(cfg, groups[i : i + 400], stats, viol, gate=(i == 0 and arg["chunk"] == 0 and (arg["tier"] == "thorough" or W == 2)))
    sample = None
    if groups:
        p, ts = groups[len(groups) // 2]
        sample = dict(config=cfg, pattern=p["name"], seq=p["seq"], ts_sent=[R.sec(t) for t in p["sent"]], ts_start=R.sec(ts), delays=[R.sec(d) for d, _, _ in R.delay_points(p, ts, mn, mx)[0]][:12])
    return dict(cfg=cfg, chunk=arg["chunk"], info=info, stats=dict(stats), counts=dict(viol.count), items=viol.items, sample=sample)


def replay_group(rp):
    cfg, p, ts = rp["cfg"], rp["pattern"], rp["ts"]
    stats = collections.Counter()
    viol = _Viol(cfg, cap=50)
    check_groups(cfg, [(p, ts)], stats, viol, gate=True)
    return viol, stats
