"""C15 reference side: plain Python/numpy only (no jax, no distrax, no rex).

Contains
* the finite families that C15 enumerates (distribution parameter lattice, operation alphabet, quantile
  levels, delay data sets for the estimator),
* the reference model "a delay distribution is (dist, rng)" as a small state machine (RefDist),
* float64 CDFs of the supported families (math.erfc) used to judge quantile(q).
"""
import itertools
import math

import numpy as np

EPS32 = float(np.finfo(np.float32).eps)


# ------------------------------------------------------------------------------------------------
# families
# ------------------------------------------------------------------------------------------------
def quantile_levels():
    """41 levels: tails (0.001 .. 0.999, incl. the 0.99 used for default delays) + k/32 + 0.1/0.9."""
    lv = {0.001, 0.005, 0.01, 0.025, 0.975, 0.99, 0.995, 0.999, 0.1, 0.9}
    lv |= {k / 32.0 for k in range(1, 32)}
    lv = sorted(lv)
    assert len(lv) == 41
    return lv


DET_MU = [0.0, 1.0 / 64, 0.01, 0.1, 1.0, 2.5]
NORMAL_MU = [0.0, 0.001, 0.01, 0.1, 1.0]
NORMAL_SIGMA = [0.0, 1e-4, 0.002, 0.05, 1.0]  # 0.0: rex's own default Normal(0, 0); sigma >> mu: clipping active
# (mu, sigma) of mixture components; the first and the last make the lower tail negative (clipping active)
MIX_COMP = [(0.0, 0.01), (0.01, 0.002), (0.1, 0.05), (1.0, 0.1), (0.001, 1e-4), (0.002, 0.02)]
MIX_W2 = [(0.5, 0.5), (0.9, 0.1), (0.1, 0.9)]
MIX_W3 = [(0.34, 0.33, 0.33), (0.2, 0.3, 0.5), (0.98, 0.01, 0.01)]
TRAIN_ALPHA = [0.0, 0.25, 0.5, 1.0, 0.3]
TRAIN_MINMAX = [(0.0, 0.1), (0.0, 1.0 / 16), (0.01, 0.05), (0.5, 2.0), (1.0 / 64, 1.0 / 8)]


def dist_specs():
    """The whole distribution family, as json-able specs. Order is fixed (slices refer to it)."""
    out = []
    for mu in DET_MU:
        out.append(dict(kind="det", mu=mu))
    for mu in NORMAL_MU:
        for s in NORMAL_SIGMA:
            out.append(dict(kind="normal", mu=mu, sigma=s))
    # the mixture of tests/unit/test_dists.py (two identical components)
    out.append(dict(kind="mix", w=[0.5, 0.5], mu=[1.0, 1.0], sigma=[0.1, 0.1]))
    for w in MIX_W2:
        for a, b in itertools.combinations(MIX_COMP, 2):
            out.append(dict(kind="mix", w=list(w), mu=[a[0], b[0]], sigma=[a[1], b[1]]))
    for w in MIX_W3:
        for a, b, c in itertools.combinations(MIX_COMP, 3):
            out.append(dict(kind="mix", w=list(w), mu=[a[0], b[0], c[0]], sigma=[a[1], b[1], c[1]]))
    for al in TRAIN_ALPHA:
        for mn, mx in TRAIN_MINMAX:
            for form in ("create", "array"):  # alpha as python float via create(delay=..) / as float32 array
                out.append(dict(kind="train", alpha=al, min=mn, max=mx, form=form))
    return out


def spec_name(s):
    if s["kind"] == "det":
        return f"Det({s['mu']:g})"
    if s["kind"] == "normal":
        return f"Normal({s['mu']:g},{s['sigma']:g})"
    if s["kind"] == "mix":
        return "Mix(w=%s,mu=%s,s=%s)" % tuple(",".join(f"{v:g}" for v in s[k]) for k in ("w", "mu", "sigma"))
    return f"Train(a={s['alpha']:g},{s['min']:g},{s['max']:g},{s['form']})"


# operation alphabet of the histories: ("reset", key index) / ("sample", shape)
OPS = [("reset", 0), ("reset", 1), ("sample", None), ("sample", 3), ("sample", (2, 2))]


def op_name(op):
    return f"reset(k{op[1] + 1})" if op[0] == "reset" else ("sample(%s)" % ("" if op[1] is None else op[1],))


def norm_shape(shape):
    if shape is None:
        return ()
    if isinstance(shape, int):
        return (shape,)
    return tuple(int(v) for v in shape)


def n_histories(depth, nops=len(OPS)):
    return sum(nops**d for d in range(1, depth + 1))


# ------------------------------------------------------------------------------------------------
# CDFs (float64)
# ------------------------------------------------------------------------------------------------
def phi(z):
    return 0.5 * math.erfc(-z / math.sqrt(2.0))


def normal_cdf(x, mu, sigma):
    if sigma == 0.0:
        return 1.0 if x >= mu else 0.0
    return phi((x - mu) / sigma)


def normal_ppf(q, mu, sigma):
    # statistics.NormalDist.inv_cdf (stdlib, Wichura AS241, ~1e-16): boring enough for a reference
    from statistics import NormalDist

    return mu + sigma * NormalDist().inv_cdf(q)


def mix_cdf(x, w, mu, sigma):
    tot = float(sum(w))
    return sum(wi / tot * normal_cdf(x, m, s) for wi, m, s in zip(w, mu, sigma))


def mix_cell(mu, sigma):
    """'Grid resolution' of a mixture quantile: 1/999 of the span between the lowest component 0.1% point and
    the highest component 99.9% point, each pushed outwards by 10% of its magnitude (the documented grid of
    StaticDist.quantile has 1000 points on that span)."""
    z = 3.090232306167813  # Phi^-1(0.999)
    lo = min(m - z * s for m, s in zip(mu, sigma))
    hi = max(m + z * s for m, s in zip(mu, sigma))
    lo = lo - 0.1 * abs(lo)
    hi = hi + 0.1 * abs(hi)
    return (hi - lo) / 999.0, lo, hi


def ulp32(x):
    return float(np.spacing(np.float32(max(abs(float(x)), 1e-30))))


def spec_value(s):
    """Value of a deterministic member (None for stochastic ones)."""
    if s["kind"] == "det":
        return s["mu"]
    if s["kind"] == "normal" and s["sigma"] == 0.0:
        return s["mu"]
    if s["kind"] == "train":
        return s["min"] + train_alpha(s) * (s["max"] - s["min"])
    return None


def train_alpha(s):
    if s["form"] == "create":
        delay = s["min"] + s["alpha"] * (s["max"] - s["min"])
        return (delay - s["min"]) / (s["max"] - s["min"])
    return float(np.float32(s["alpha"]))


def judge_quantile(s, q, ret):
    """Does `ret` = quantile(q) agree with the CDF of the distribution `s`? Returns None or a reason.

    Tolerances (all stated in the units in which rex computes, float32):
    * deterministic members (Deterministic, Normal with sigma 0, TrainableDist): the value itself, to 2 ulp32
      (TrainableDist with a python-float alpha is float64 arithmetic: 1e-12 relative);
    * Normal: q - 1e-6 <= cdf(ret + d), cdf(ret - d) <= q + 1e-6 with d = 2 ulp32(max(|ret|, |mu|)): the result is a
      float32, so it cannot be closer to the real quantile than its own spacing (measured: <= 0.7 ulp32), and
      float32 ndtri is good to ~1e-6 in probability (measured 1.7e-6 before the ulp allowance, 0 after);
    * mixtures: the true quantile lies in [ret - cell, ret] ("within grid resolution"), judged in probability
      space with the same allowances: cdf(ret + d) >= q - 1e-5 and cdf(ret - cell - d) <= q + 1e-5; 1e-5 because
      the grid CDF is evaluated in float32 (x cast to float32, erf in float32).
    """
    if not math.isfinite(ret):
        return f"quantile({q}) = {ret} is not finite"
    v = spec_value(s)
    if v is not None:
        tol = 1e-12 * max(1.0, abs(v)) if (s["kind"] == "train" and s["form"] == "create") else 2 * ulp32(v)
        return None if abs(ret - v) <= tol else f"quantile({q}) = {ret!r}, the distribution is the point mass at {v!r}"
    if s["kind"] == "normal":
        d = 2 * ulp32(max(abs(ret), abs(s["mu"])))
        up, dn = normal_cdf(ret + d, s["mu"], s["sigma"]), normal_cdf(ret - d, s["mu"], s["sigma"])
        if up < q - 1e-6 or dn > q + 1e-6:
            return f"quantile({q}) = {ret!r} but cdf there is {normal_cdf(ret, s['mu'], s['sigma'])!r} (exact quantile {normal_ppf(q, s['mu'], s['sigma'])!r})"
        return None
    cell, lo, hi = mix_cell(s["mu"], s["sigma"])
    d = 2 * ulp32(max(abs(ret), abs(lo), abs(hi)))
    up = mix_cdf(ret + d, s["w"], s["mu"], s["sigma"])
    dn = mix_cdf(ret - cell - d, s["w"], s["mu"], s["sigma"])
    if up < q - 1e-5:
        return f"quantile({q}) = {ret!r} is too small: cdf there is {up!r} < q"
    if dn > q + 1e-5:
        return f"quantile({q}) = {ret!r} is more than one grid cell ({cell:.3g}) above the true quantile: cdf(ret - cell) = {dn!r} > q"
    return None


# ------------------------------------------------------------------------------------------------
# direct calls of rex.utils.mixture_distribution_quantiles(dist, probs VECTOR, 1000, grid_min, grid_max)
# ------------------------------------------------------------------------------------------------
GRID_N = 1000
# levels beyond the CDF range of a grid that ends at the 0.1% / 99.9% component points (that range is at most
# [1e-5, 1 - 1e-5] on this lattice: smallest weight 0.01 x tail 0.001). NOT 0.99999: that value ties exactly, in float32,
# with the CDF at the grid end of the members whose top component has weight 0.01, and rex answers such a tie with
# grid_min (the span check uses <=, the selection a strict >); a measure-zero tie is not what this family is about.
Q_BELOW, Q_ABOVE = 1e-6, 0.999999


def mix_ppf(q, w, mu, sigma):
    """float64 reference quantile of a mixture by bisection on mix_cdf (200 halvings of a bracket 40 sigma wide)."""
    lo = min(m - 40 * s for m, s in zip(mu, sigma))
    hi = max(m + 40 * s for m, s in zip(mu, sigma))
    for _ in range(200):
        mid = 0.5 * (lo + hi)
        if mix_cdf(mid, w, mu, sigma) < q:
            lo = mid
        else:
            hi = mid
    return 0.5 * (lo + hi)


def mixq_grids(s):
    """The grids handed to the function: the one StaticDist.quantile builds (component 0.1% / 99.9% points pushed out by
    10%), the same without the push (ends exactly at the component points), and one that certainly does not span the
    level grid (from the reference 4% point to the reference 96% point)."""
    z = 3.090232306167813
    lo = min(m - z * sg for m, sg in zip(s["mu"], s["sigma"]))
    hi = max(m + z * sg for m, sg in zip(s["mu"], s["sigma"]))
    return {
        "as-rex": (lo - 0.1 * abs(lo), hi + 0.1 * abs(hi)),
        "component-ends": (lo, hi),
        "truncated-4-96": (mix_ppf(0.04, s["w"], s["mu"], s["sigma"]), mix_ppf(0.96, s["w"], s["mu"], s["sigma"])),
    }


def mixq_level_vectors():
    lv = quantile_levels()
    inner = [q for q in lv if 0.0625 <= q <= 0.9375]
    return {
        "41": lv,
        "41+above": lv + [Q_ABOVE],
        "below+41": [Q_BELOW] + lv,
        "below+41+above": [Q_BELOW] + lv + [Q_ABOVE],
        "mid+above": [0.5, Q_ABOVE],
        "below+mid": [Q_BELOW, 0.5],
        "inner": inner,  # covered by every grid, also by the truncated one
    }


def judge_mixq(s, grid, levels, ret):
    """`ret` = what one call returned for the level vector (None if it raised RuntimeError, which is the documented answer
    to a grid that does not span the requested levels). Otherwise every entry must be within one grid cell of the float64
    quantile (judged in probability space, as judge_quantile does; the allowance shrinks in the far tails so that it stays
    below the level itself) and the vector must be non-decreasing in q. Returns a list of (signature, reason)."""
    if ret is None:
        return []
    bad = []
    ret = [float(v) for v in np.asarray(ret, dtype=np.float64).ravel()]
    if len(ret) != len(levels):
        return [("mixq:shape", f"{len(levels)} levels, {len(ret)} quantiles returned")]
    gmin, gmax = grid
    cell = (gmax - gmin) / (GRID_N - 1)
    d = 2 * ulp32(max(abs(gmin), abs(gmax)))
    for q, r in zip(levels, ret):
        eps = min(1e-5, max(0.2 * min(q, 1.0 - q), 5e-7))  # 5e-7: a few float32 ulps of a CDF value near 1
        if not math.isfinite(r):
            bad.append(("mixq:cdf-mismatch", f"level {q}: {r}"))
            continue
        up = mix_cdf(r + d, s["w"], s["mu"], s["sigma"])
        dn = mix_cdf(r - cell - d, s["w"], s["mu"], s["sigma"])
        if up < q - eps or dn > q + eps:
            bad.append(("mixq:cdf-mismatch", f"level {q}: returned {r!r}, float64 quantile {mix_ppf(q, s['w'], s['mu'], s['sigma'])!r}, grid cell {cell:.3g} "
                                              f"(cdf(ret) = {up!r}, cdf(ret - cell) = {dn!r}); the grid [{gmin!r}, {gmax!r}] spans cdf "
                                              f"[{mix_cdf(gmin, s['w'], s['mu'], s['sigma']):.3g}, {mix_cdf(gmax, s['w'], s['mu'], s['sigma']):.6g}] and the call did not raise"))
    order = sorted(range(len(levels)), key=lambda i: levels[i])
    for a, b in zip(order, order[1:]):
        if ret[b] < ret[a]:
            bad.append(("mixq:not-monotone", f"quantile({levels[a]}) = {ret[a]!r} > quantile({levels[b]}) = {ret[b]!r}"))
            break
    return bad


# ------------------------------------------------------------------------------------------------
# reference model of the sampling state machine
# ------------------------------------------------------------------------------------------------
class RefDist:
    """A delay distribution is (dist, rng). `dist` never changes; `rng` is an opaque token (the key bits).

    reset(k)       -> state k
    sample(shape)  -> (state', x): a *function* of (state, shape) (table filled at the first observation, every later
                      observation of the same (state, shape), through whatever history, must reproduce it bit for bit);
                      state' != state for distributions that carry an rng; x has the requested shape, is finite and >= 0;
                      deterministic members return their value.
    TrainableDist carries no rng: its state is the constant token ().
    """

    def __init__(self, spec):
        self.spec = spec
        self.has_rng = spec["kind"] != "train"
        self.value = spec_value(spec)
        self.table = {}
        self.states = set()

    def reset(self, state, key_bits):
        st = tuple(key_bits) if self.has_rng else ()
        self.states.add(st)
        return st

    def judge_sample(self, state, shape, new_state, x):
        """Returns a list of (signature, reason)."""
        bad = []
        shp = norm_shape(shape)
        x = np.asarray(x)
        if tuple(x.shape) != shp:
            bad.append(("sample:shape", f"sample({shape}) returned shape {tuple(x.shape)}"))
        if not np.all(np.isfinite(x)):
            bad.append(("sample:not-finite", f"sample({shape}) returned {x.tolist()}"))
        elif np.any(x < 0):
            bad.append(("sample:negative", f"sample({shape}) returned a negative delay: {x.tolist()}"))
        if self.has_rng and tuple(new_state) == tuple(state):
            bad.append(("sample:rng-not-advanced", f"sample({shape}) returned the rng state it started from: {state}"))
        if not self.has_rng and tuple(new_state) != ():
            bad.append(("sample:state", "TrainableDist.sample changed the distribution"))
        if self.value is not None and x.size:
            v = max(self.value, 0.0)
            # float32 result of float32/float64 mixed arithmetic on 2-3 operands: 2 ulp32
            if float(np.max(np.abs(x.astype(np.float64) - v))) > 2 * ulp32(v):
                bad.append(("sample:value", f"sample({shape}) of the point mass at {v!r} returned {x.tolist()}"))
        k = (tuple(state), shp)
        obs = (tuple(new_state), x.tobytes(), str(x.dtype))
        if k in self.table:
            if self.table[k] != obs:
                old = np.frombuffer(self.table[k][1], dtype=self.table[k][2])
                bad.append(("sample:not-replayable", f"sample({shape}) from rng state {state} gave {x.ravel().tolist()} -> {new_state}, "
                                                       f"earlier the same state gave {old.tolist()} -> {self.table[k][0]}"))
        else:
            self.table[k] = obs
        self.states.add(tuple(new_state))
        return bad


# ------------------------------------------------------------------------------------------------
# estimator data sets (base unit: seconds); every set is a fixed list, no randomness
# ------------------------------------------------------------------------------------------------
GMM_SCALES = [1e-3, 1.0, 1e3]
CONST_VALUES = [0.004, 0.0123, 0.5]
CONST_N = [8, 20]


def gmm_datasets():
    lin = np.linspace
    return {
        "two-point": np.array([0.01] * 10 + [0.02] * 10),
        "two-point-unbalanced": np.array([0.01] * 15 + [0.03] * 5),
        "bimodal": np.concatenate([0.01 + 0.0005 * lin(-1, 1, 15), 0.03 + 0.001 * lin(-1, 1, 10)]),
        "ramp": lin(0.005, 0.015, 24),
        "offset-narrow": 0.1 + 0.001 * lin(-1, 1, 16),
        "with-zeros": np.concatenate([np.zeros(6), lin(0.001, 0.004, 10)]),
    }


def judge_gmm(data, w, mu, sigma):
    """Proper distribution in the units of the data. Returns list of (signature, reason)."""
    bad = []
    w, mu, sigma = (np.asarray(a, dtype=np.float64).ravel() for a in (w, mu, sigma))
    if not (len(w) == len(mu) == len(sigma) >= 1):
        return [("gmm:shape", f"weights/means/scales have lengths {len(w)}/{len(mu)}/{len(sigma)}")]
    if not (np.all(np.isfinite(w)) and np.all(np.isfinite(mu)) and np.all(np.isfinite(sigma))):
        return [("gmm:not-finite", f"w={w.tolist()} mu={mu.tolist()} sigma={sigma.tolist()}")]
    # float32 normalisation of <= 6 weights: 1e-5
    if np.any(w < 0) or abs(float(w.sum()) - 1.0) > 1e-5:
        bad.append(("gmm:weights", f"weights {w.tolist()} do not form a probability vector (sum {w.sum()!r})"))
    if np.any(sigma <= 0):
        bad.append(("gmm:nonpositive-scale", f"component scales {sigma.tolist()} are not all positive"))
    lo, hi = float(np.min(data)), float(np.max(data))
    r = hi - lo
    m = float(np.sum(w * mu) / max(float(w.sum()), 1e-30))
    # location in data units: the mean of the fitted mixture lies in the data range extended by half its width
    if not (lo - 0.5 * r <= m <= hi + 0.5 * r):
        bad.append(("gmm:units-location", f"mixture mean {m!r} outside the data range [{lo!r}, {hi!r}] (+- half its width)"))
    # spread in data units: the fitted std is within a factor 10 of the data std (a units mix-up is a factor 1e3 here)
    var = float(np.sum(w * (sigma**2 + (mu - m) ** 2)))
    sd, ds = math.sqrt(max(var, 0.0)), float(np.std(data))
    if not (ds / 10 <= sd <= ds * 10):
        bad.append(("gmm:units-spread", f"mixture std {sd!r} vs data std {ds!r}"))
    return bad
