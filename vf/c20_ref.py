"""C20 reference model: plain numpy (float64) forward pass of "normalise -> MLP -> gaussian mean -> squash/clip".

Nothing here imports rex, jax or flax.  Inputs are numpy arrays read out of the PPOResult (layer kernels/biases,
log_std, normalisation mean/var/clip, action low/high) plus the *configuration we asked for* (activation name,
squash flag, normalise flag) - the activation/squash/normalise decisions are therefore never taken from rex.

Besides the value the model propagates a rigorous-style float32 forward error bound `e` (standard inner-product
bound gamma_{n+1} * (|x|.|W| + |b|), Lipschitz constants of the activations, a generous allowance for the
transcendental kernels), so that the comparison tolerance is *per point* and justified instead of a global
"1e-5": see `tolerance()`.
"""
import numpy as onp

U = 2.0 ** -24  # unit roundoff of float32
C_TRANS = 16.0  # generous allowance (in units of U, relative) for the accuracy of XLA's tanh/exp/log1p kernels
GELU_LIP = 1.2  # sup |d/dx gelu_tanh(x)| = 1.129...


def _gamma(n):
    return n * U / (1.0 - n * U)


# ------------------------------------------------------------------------------------------------
# activations (value, lipschitz constant, own rounding allowance)
# ------------------------------------------------------------------------------------------------
def act_value(name, y):
    if name == "relu":
        return onp.maximum(y, 0.0)
    if name == "tanh":
        return onp.tanh(y)
    if name == "softplus":
        return onp.logaddexp(y, 0.0)
    if name == "gelu":  # flax.linen.gelu default (approximate=True): the tanh formula
        return 0.5 * y * (1.0 + onp.tanh(onp.sqrt(2.0 / onp.pi) * (y + 0.044715 * y ** 3)))
    raise ValueError(name)


def act_err(name, y, fy, e_in):
    if name == "relu":
        return e_in
    if name == "tanh":
        return e_in + C_TRANS * U * (onp.abs(fy) + 1e-30)
    if name == "softplus":
        return e_in + C_TRANS * U * (onp.abs(fy) + 1e-30)
    if name == "gelu":
        return GELU_LIP * e_in + C_TRANS * U * (onp.abs(y) + onp.abs(fy))
    raise ValueError(name)


# ------------------------------------------------------------------------------------------------
# pieces
# ------------------------------------------------------------------------------------------------
def normalize(obs, norm):
    """obs: [N, D] float64 (holding float32 values). norm: None or dict(mean, var, clip). Returns (x, e, regime[N, D] in {-1,0,1})."""
    obs = onp.asarray(obs, dtype=onp.float64)
    if norm is None:
        return obs, onp.zeros_like(obs), onp.zeros(obs.shape, dtype=int)
    m = onp.asarray(norm["mean"], dtype=onp.float64)
    v = onp.asarray(norm["var"], dtype=onp.float64)
    c = float(norm["clip"])
    q = (obs - m) / onp.sqrt(v + 1e-8)
    e = 8.0 * U * onp.abs(q)  # subtract, add 1e-8 (as float32 constant), sqrt, divide: a few roundings
    regime = onp.where(q > c, 1, onp.where(q < -c, -1, 0))
    x = onp.clip(q, -c, c)
    e = onp.where(onp.abs(q) - c > e, 0.0, e)  # clearly outside: both sides return exactly +-c; else clip is 1-Lipschitz
    return x, e, regime


def mlp(layers, act, x, e):
    """layers: [(W[fan_in, fan_out], b[fan_out])...], the last one is the linear output layer.
    Returns mean [N, A], error bound [N, A], list of hidden pre-activations."""
    pre = []
    for li, (W, b) in enumerate(layers):
        W = onp.asarray(W, dtype=onp.float64)
        b = onp.asarray(b, dtype=onp.float64)
        n = W.shape[0]
        y = x @ W + b
        ey = e @ onp.abs(W) + _gamma(n + 1) * (onp.abs(x) @ onp.abs(W) + onp.abs(b))
        if li < len(layers) - 1:
            pre.append(y)
            fy = act_value(act, y)
            e = act_err(act, y, fy, ey)
            x = fy
        else:
            x, e = y, ey
    return x, e, pre


def unsquash(u, e, scaling):
    """scaling: dict(low, high, squash). Returns action, error bound, regime info."""
    low = onp.asarray(scaling["low"], dtype=onp.float64)
    high = onp.asarray(scaling["high"], dtype=onp.float64)
    if scaling["squash"]:
        t = onp.tanh(u)
        # |tanh(u +- e) - tanh(u)| <= e * sech^2(closest point to 0 of the interval)
        et = e / onp.cosh(onp.minimum(onp.maximum(onp.abs(u) - e, 0.0), 50.0)) ** 2 + C_TRANS * U
        a = 0.5 * (t + 1.0) * (high - low) + low
        ea = 0.5 * onp.abs(high - low) * et + 4.0 * U * (onp.abs(high) + onp.abs(low) + onp.abs(a))
        regime = onp.where(onp.abs(u) < 2.0, 0, onp.sign(u)).astype(int)  # 0: unsaturated part of tanh
    else:
        a = onp.clip(u, low, high)
        ea = onp.minimum(e, onp.abs(high - low))  # clip is 1-Lipschitz and bounded
        regime = onp.where(u > high, 1, onp.where(u < low, -1, 0))
    return a, ea, regime


def forward(model, cfg, obs, eps=None):
    """model: dict(layers, log_std, norm, scaling); cfg: dict(act, squash, norm ...); obs [N, D]; eps None or [N, A].
    Returns dict(action, e (float32 error bound of action), mean, e_mean, u (pre-squash value), pre (hidden pre-activations), regimes)."""
    if bool(cfg["norm"]) != (model["norm"] is not None):
        raise AssertionError("normalisation statistics present/absent contrary to the requested configuration")
    if bool(cfg["squash"]) != bool(model["scaling"]["squash"]):
        raise AssertionError("squash flag contrary to the requested configuration")
    x, e, nreg = normalize(obs, model["norm"])
    mean, em, pre = mlp(model["layers"], cfg["act"], x, e)
    u, eu = mean, em
    if eps is not None:
        std = onp.exp(onp.asarray(model["log_std"], dtype=onp.float64))
        u = mean + std * eps
        eu = em + (C_TRANS + 4.0) * U * onp.abs(std * eps) + 2.0 * U * onp.abs(u)
    a, ea, areg = unsquash(u, eu, model["scaling"])
    return dict(action=a, e=ea, mean=mean, e_mean=em, u=u, pre=pre, norm_regime=nreg, act_regime=areg, norm_x=x)


SAFETY = 2.0


def tolerance(e, scaling):
    """Allowed |real - reference| per component: SAFETY x the propagated float32 bound + 2 ulp of the action scale.
    `e` bounds the rounding of ONE float32 evaluation against exact arithmetic, so two float32 evaluations of the same
    formula (rex Policy vs the flax network) differ by at most 2e = SAFETY x e.  The bound is conservative: on the
    unchanged tree the largest observed |real - reference| is about 0.1 x this tolerance (reported in the evidence), while
    the mildest property-breaking change tried (exact instead of tanh-approximated gelu) exceeds it 10x."""
    scale = onp.maximum(onp.abs(onp.asarray(scaling["low"], dtype=onp.float64)), onp.abs(onp.asarray(scaling["high"], dtype=onp.float64)))
    return SAFETY * e + 2.0 * U * onp.maximum(scale, 1.0)


# ------------------------------------------------------------------------------------------------
# float32 helpers used for the flax-side oracle (normalise in float32 with numpy, feed the real network, unsquash here)
# ------------------------------------------------------------------------------------------------
def normalize_f32(obs, norm):
    obs = onp.asarray(obs, dtype=onp.float32)
    if norm is None:
        return obs
    m = onp.asarray(norm["mean"], dtype=onp.float32)
    v = onp.asarray(norm["var"], dtype=onp.float32)
    c = onp.float32(norm["clip"])
    q = (obs - m) / onp.sqrt(v + onp.float32(1e-8))
    return onp.clip(q, -c, c).astype(onp.float32)


def unsquash_plain(u, scaling):
    return unsquash(onp.asarray(u, dtype=onp.float64), onp.zeros_like(onp.asarray(u, dtype=onp.float64)), scaling)[0]


# ------------------------------------------------------------------------------------------------
# the observation lattice
# ------------------------------------------------------------------------------------------------
LATTICE_VALUES = (-1000.0, -4.0, -1.0, -0.25, -0.0625, 0.0, 0.0625, 0.25, 1.0, 4.0, 1000.0)  # float32-exact (dyadic) values


def lattice(dim):
    import itertools

    return onp.array(list(itertools.product(LATTICE_VALUES, repeat=dim)), dtype=onp.float64)
