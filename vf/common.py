"""Shared plumbing: repo binding, evidence files, violations/replays, known findings, worker pool."""
import hashlib
import json
import multiprocessing as mp
import os
import subprocess
import sys
import time
import traceback

VERIF_DIR = os.path.dirname(os.path.dirname(os.path.abspath(__file__)))
EVIDENCE_DIR = os.path.join(VERIF_DIR, "evidence")
REPLAY_DIR = os.path.join(VERIF_DIR, "replays")
KNOWN_FINDINGS = os.path.join(VERIF_DIR, "known_findings.json")
GUARD = "REX_VERIF"


class HarnessError(Exception):
    """The machinery itself failed (replay divergence, uncaptured primitive, ...). Exit code 2, never a pass."""


def repo_path():
    return os.path.abspath(os.environ.get("VERIF_REPO", "/repo"))


def setup_env():
    """Must run before jax is imported (in the main process and in every worker)."""
    os.environ.setdefault("JAX_PLATFORMS", "cpu")
    os.environ.setdefault("CUDA_VISIBLE_DEVICES", "")
    os.environ.setdefault("XLA_FLAGS", "--xla_cpu_multi_thread_eigen=false intra_op_parallelism_threads=1")
    os.environ.setdefault("OMP_NUM_THREADS", "1")
    os.environ.setdefault("OPENBLAS_NUM_THREADS", "1")
    os.environ.setdefault("TF_CPP_MIN_LOG_LEVEL", "3")
    os.environ.setdefault("PYTHONHASHSEED", "0")
    os.environ[GUARD] = "1"
    import warnings

    warnings.filterwarnings("ignore")
    rp = repo_path()
    if rp in sys.path:
        sys.path.remove(rp)
    sys.path.insert(0, rp)
    if VERIF_DIR not in sys.path:
        sys.path.insert(1, VERIF_DIR)


def import_rex():
    setup_env()
    # the numpy C-API warning of the image is printed on stderr at import; harmless
    import rex  # noqa

    f = os.path.abspath(rex.__file__)
    if not f.startswith(repo_path() + os.sep):
        raise HarnessError(f"rex imported from {f}, expected under {repo_path()}")
    return rex


def seed():
    try:
        return int(os.environ.get("VERIF_SEED", "0"))
    except ValueError:
        return 0


def nproc():
    try:
        return max(1, int(os.environ.get("VERIF_NPROC", str(min(16, os.cpu_count() or 1)))))
    except ValueError:
        return 8


# ------------------------------------------------------------------------------------------------
# worker pool (spawn: jax must not be forked)
# ------------------------------------------------------------------------------------------------
def _worker_init(env):
    os.environ.update(env)
    setup_env()
    ppid = os.getppid()

    def _watch():  # never outlive the parent (a killed check must not leave 16 busy orphans behind)
        while True:
            time.sleep(2.0)
            if os.getppid() != ppid:
                os._exit(3)

    import threading

    threading.Thread(target=_watch, daemon=True).start()


def _call(packed):
    modname, fname, arg = packed
    try:
        import importlib

        mod = importlib.import_module(modname)
        return ("ok", getattr(mod, fname)(arg))
    except BaseException as e:  # noqa
        return ("err", "".join(traceback.format_exception(type(e), e, e.__traceback__))[-4000:])


class Pool:
    """Thin wrapper: tasks are (module, function, arg) so that spawn-ed workers can import them."""

    def __init__(self, n=None, maxtasks=None):
        self.n = n or nproc()
        self.pool = None
        self.maxtasks = maxtasks  # recycle a worker after this many tasks (XLA keeps every compiled program alive)

    def __enter__(self):
        if self.n > 1:
            ctx = mp.get_context("spawn")
            env = {k: v for k, v in os.environ.items() if k.startswith(("VERIF_", "JAX_", "XLA_", "PYTHONHASHSEED", GUARD))}
            self.pool = ctx.Pool(self.n, initializer=_worker_init, initargs=(env,), maxtasksperchild=self.maxtasks)
        return self

    def __exit__(self, *a):
        if self.pool is not None:
            self.pool.terminate()
            self.pool.join()

    def imap(self, modname, fname, args, chunksize=1):
        packed = [(modname, fname, a) for a in args]
        if self.pool is None:
            it = map(_call, packed)
        else:
            it = self.pool.imap_unordered(_call, packed, chunksize=chunksize)
        for status, res in it:
            if status == "err":
                raise HarnessError("worker failed:\n" + res)
            yield res


# ------------------------------------------------------------------------------------------------
# known findings
# ------------------------------------------------------------------------------------------------
def load_known_findings(pid):
    """Returns list of entries {property, signature, what} with status == 'known' for this property."""
    if not os.path.exists(KNOWN_FINDINGS):
        return []
    with open(KNOWN_FINDINGS) as f:
        data = json.load(f)
    return [e for e in data.get("findings", []) if e.get("property") == pid and e.get("status") == "known"]


# ------------------------------------------------------------------------------------------------
# Reporter: collects coverage + violations, writes evidence, decides the exit code
# ------------------------------------------------------------------------------------------------
def _jsonable(x):
    import numpy as onp

    if isinstance(x, dict):
        return {str(k): _jsonable(v) for k, v in x.items()}
    if isinstance(x, (list, tuple, set, frozenset)):
        return [_jsonable(v) for v in x]
    if isinstance(x, (onp.integer,)):
        return int(x)
    if isinstance(x, (onp.floating,)):
        return float(x)
    if isinstance(x, onp.ndarray):
        return x.tolist()
    if isinstance(x, (str, int, float, bool)) or x is None:
        return x
    return repr(x)


class Reporter:
    def __init__(self, pid, tier, level="model_checking"):
        self.pid, self.tier, self.level = pid, tier, level
        self.t0 = time.time()
        self.cov = dict(states=0, transitions=0, traces_validated_against_impl=0, samples=[], exhaustive=True, cap_hit=False)
        self.sections = {}
        self.assumptions = []
        self.violations = []  # dicts: signature, what, replay(dict)
        self.known = load_known_findings(pid)
        self.known_hit = {}

    # coverage ------------------------------------------------------------------------------
    def add(self, states=0, transitions=0, traces=0):
        self.cov["states"] += int(states)
        self.cov["transitions"] += int(transitions)
        self.cov["traces_validated_against_impl"] += int(traces)

    def sample(self, s, limit=6):
        if len(self.cov["samples"]) < limit:
            self.cov["samples"].append(_jsonable(s))

    def section(self, name, **kw):
        d = self.sections.setdefault(name, {})
        for k, v in kw.items():
            if isinstance(v, (int, float)) and not isinstance(v, bool) and isinstance(d.get(k), (int, float)):
                d[k] += v
            else:
                d[k] = _jsonable(v)

    def not_exhaustive(self, why):
        self.cov["exhaustive"] = False
        self.cov.setdefault("not_exhaustive_because", []).append(why)

    def assume(self, *a):
        self.assumptions.extend(a)

    # violations ----------------------------------------------------------------------------
    def violation(self, signature, what, replay=None):
        """signature: short stable string identifying the failing case class (matched against known findings)."""
        for k in self.known:
            if k["signature"] == signature or (k.get("signature_prefix") and signature.startswith(k["signature_prefix"])):
                self.known_hit.setdefault(k["signature"], dict(entry=k, count=0, example=what))["count"] += 1
                return
        self.violations.append(dict(signature=signature, what=what, replay=_jsonable(replay or {})))

    # finish --------------------------------------------------------------------------------
    def finish(self):
        os.makedirs(EVIDENCE_DIR, exist_ok=True)
        wall = time.time() - self.t0
        for sig, kh in self.known_hit.items():
            print(f"KNOWN-FINDING: property={self.pid} {kh['entry'].get('what', sig)} [signature={sig}; {kh['count']} case(s) this run]")
        replay_paths = []
        if self.violations:
            os.makedirs(REPLAY_DIR, exist_ok=True)
            seen = set()
            for v in self.violations:
                if v["signature"] in seen and len(replay_paths) >= 5:
                    continue
                seen.add(v["signature"])
                body = dict(property=self.pid, tier=self.tier, seed=seed(), signature=v["signature"], what=v["what"], replay=v["replay"])
                h = hashlib.sha1(json.dumps(body, sort_keys=True, default=repr).encode()).hexdigest()[:10]
                path = os.path.join(REPLAY_DIR, f"{self.pid}-{h}.json")
                with open(path, "w") as f:
                    json.dump(body, f, indent=1, default=repr)
                replay_paths.append(path)
                if len(replay_paths) <= 10:
                    print(f"VIOLATION property={self.pid} replay={path}")
                    print(f"  what: {str(v['what'])[:600]}")
        cov = dict(self.cov)
        cov.update({k: v for k, v in self.sections.items()})
        cov["known_findings_hit"] = {s: k["count"] for s, k in self.known_hit.items()}
        if not cov["samples"]:
            cov["samples"] = ["(no sample recorded)"]
        cov["states"] = max(1, cov["states"]) if self.cov["traces_validated_against_impl"] or cov["states"] else cov["states"]
        ev = dict(
            property_id=self.pid,
            tier=self.tier,
            seed=seed(),
            level=self.level,
            coverage=_jsonable(cov),
            assumptions=self.assumptions,
            wall_s=round(wall, 2),
            violations=len(self.violations),
            repo=repo_path(),
        )
        evdir = EVIDENCE_DIR
        if repo_path() != "/repo":  # runs against a scratch copy (VERIF_REPO) never overwrite the evidence of /repo itself
            evdir = os.path.join(EVIDENCE_DIR, "scratch")
            os.makedirs(evdir, exist_ok=True)
        path = os.path.join(evdir, f"{self.pid}.json")
        with open(path, "w") as f:
            json.dump(ev, f, indent=1)
        validate_evidence(path)
        print(
            f"[{self.pid}] tier={self.tier} seed={seed()} states={cov['states']} transitions={cov['transitions']} "
            f"traces={cov['traces_validated_against_impl']} exhaustive={cov['exhaustive']} violations={len(self.violations)} "
            f"known={sum(k['count'] for k in self.known_hit.values())} wall={wall:.1f}s"
        )
        return 1 if self.violations else 0


def validate_evidence(path):
    """Structural validation (hand-written for the keys our level needs) + full schema validation via python3-vt when present."""
    with open(path) as f:
        ev = json.load(f)
    for k in ("property_id", "tier", "seed", "level", "coverage", "wall_s"):
        if k not in ev:
            raise HarnessError(f"evidence {path}: missing {k}")
    c = ev["coverage"]
    if ev["level"] == "model_checking":
        if not (c.get("states", 0) >= 1 and c.get("transitions", 0) >= 1 and isinstance(c.get("samples"), list) and c["samples"]):
            raise HarnessError(f"evidence {path}: model_checking coverage keys invalid: states={c.get('states')} transitions={c.get('transitions')}")
    schema = "/root/.vp/EVIDENCE.schema.json"
    if os.path.exists(schema) and os.environ.get("VERIF_SCHEMA_CHECK", "1") == "1":
        try:
            code = (
                "import json,sys,jsonschema;"
                "jsonschema.validate(json.load(open(sys.argv[1])), json.load(open(sys.argv[2])))"
            )
            r = subprocess.run(["python3-vt", "-c", code, path, schema], capture_output=True, text=True, timeout=60)
            if r.returncode != 0:
                raise HarnessError(f"evidence {path} does not validate: {r.stderr[-800:]}")
        except (FileNotFoundError, subprocess.TimeoutExpired):
            pass
