"""Oracles evaluated on one controlled execution of the threaded runtime (DESIGN 3.4)."""
import collections
import json

from vf.refasync import Ref, compare_obs, compare_record


def lifecycle_violations(job, res):
    v = []
    if res["deadlock"] is not None:
        d = res["deadlock"]
        kind = "livelock-cap" if d.get("cap_hit") else "deadlock"
        last = [c for c in d["calls"] if not c.endswith(":done")]
        v.append((f"{kind}:{last[0] if last else '?'}", dict(blocked=d["blocked"], calls=d["calls"], queues=d.get("queues"))))
    if res["user_exc"] is not None:
        v.append(("user-exception:" + res["user_exc"][0].split("(")[0], res["user_exc"]))
    for (thr, fn, exc) in res["task_errors"]:
        v.append((f"task-exception:{fn}:{exc.split('(')[0]}", (thr, fn, exc, res["task_error_tb"][:1])))
    for (thr, exc, tb) in res["thread_errors"]:
        if thr != "user":
            v.append((f"thread-exception:{exc.split('(')[0]}", (thr, exc, tb)))
    return v


def expected_executions(job, ep):
    """multiset of (node, seq) whose step function must have run exactly once in this episode, from its record."""
    sup = job["spec"]["supervisor"]
    exp = collections.Counter()
    for n, nr in ep["record"].items():
        seqs = nr["steps"]["seq"]
        if n == sup:
            done = (len(ep["obs"]) - 1) if ep["driver"] == "step" else ep.get("runs", 0)
            for s in range(done):
                if s not in ep["overridden"]:
                    exp[(n, s)] += 1
        else:
            for s in seqs:
                exp[(n, s)] += 1
    return exp


def once_violations(job, res):
    v = []
    start = 0
    for ep in res["episodes"]:
        if "record" not in ep:
            continue
        tr = res["trace"][start : ep["trace_len"]]
        start = ep["trace_len"]
        got = collections.Counter((t["node"], t["seq"]) for t in tr)
        wrong_eps = [t for t in tr if t["eps"] != ep["eps"]]
        if wrong_eps:
            v.append(("step-wrong-eps", (wrong_eps[0]["node"], wrong_eps[0]["eps"], ep["eps"])))
        exp = expected_executions(job, ep)
        if got != exp:
            diff = {str(k): (got.get(k, 0), exp.get(k, 0)) for k in set(got) | set(exp) if got.get(k, 0) != exp.get(k, 0)}
            kinds = sorted({("twice" if g > e else "missing") + (":sup" if k.startswith("('" + job["spec"]["supervisor"]) else "") for k, (g, e) in diff.items()})
            v.append(("exactly-once:" + ",".join(kinds), dict(list(diff.items())[:8])))
    return v


def ref_violations(job, res, payload=True):
    v = []
    for ep in res["episodes"]:
        if "record" not in ep:
            continue
        done = (len(ep["obs"]) - 1) if ep["driver"] == "step" else ep.get("runs", 0)
        ref = Ref(job["spec"], init_rng=res["init_rng"], eps=ep["eps"], overridden=ep["overridden"], sup_done=done)
        for sig, det in compare_record(job["spec"], ep["record"], ref, check_payload=payload):
            v.append(("ref:" + sig, det))
        if ep["driver"] == "step":
            for sig, det in compare_obs(job["spec"], ep["obs"], ref):
                v.append(("ref:" + sig, det))
    return v


def outcome_key(job, res):
    if not res["finished"]:
        return "UNFINISHED"
    k = []
    for ep in res["episodes"]:
        if "record" in ep:
            k.append(tuple((n, len(nr["steps"]["seq"])) for n, nr in sorted(ep["record"].items())))
    return hash(json.dumps(k)) & 0xFFFFFFFF


def judge_lifecycle(job, res):
    """C05: calls return, no exception, episodes isolated (ref equality covers seq 0 / time 0 / no stale message)."""
    v = lifecycle_violations(job, res)
    if res["finished"] and job.get("clock", "SIM") == "SIM":
        v += ref_violations(job, res)
    if res["finished"]:
        v += isolation_violations(job, res)
    return dict(violations=v, outcome=outcome_key(job, res))


def judge_all(job, res):
    """C02/C03/C06 on one execution: lifecycle + reference equality + exactly once."""
    v = lifecycle_violations(job, res)
    if res["finished"]:
        if job.get("clock", "SIM") == "SIM":
            v += ref_violations(job, res)
        v += once_violations(job, res)
        v += isolation_violations(job, res)
    return dict(violations=v, outcome=outcome_key(job, res))


def isolation_violations(job, res):
    """Every episode starts at seq 0 / its phase-determined first start, and every consumed payload was produced in
    the current episode (tag = (producer, eps, seq)) or is the default output (eps = -1)."""
    v = []
    for ep in res["episodes"]:
        if "record" not in ep:
            continue
        for n, nr in ep["record"].items():
            st = nr["steps"]
            if st["seq"] and st["seq"][0] != 0:
                v.append(("episode-first-seq", (n, st["seq"][:3])))
            if st["seq"] and not (0.0 <= st["ts_start"][0] < 64.0):
                v.append(("episode-first-ts", (n, st["ts_start"][0])))
            if any(e != st["eps"][0] for e in st["eps"]):
                v.append(("episode-eps-mixed", (n, st["eps"])))
            for o, ms in nr["inputs"].items():
                if ms["seq_out"] and ms["seq_out"][0] != 0:
                    v.append(("episode-first-msg-seq", (n, o, ms["seq_out"][:3])))
            if "inputs" in st:
                for o, w in st["inputs"].items():
                    for k, tags in enumerate(w["data_tag"]):
                        for (pid, e_, s_), sq in zip(tags, w["seq"][k]):
                            if sq >= 0 and e_ != ep["eps"]:
                                v.append(("stale-message", (n, k, o, (pid, e_, s_), ep["eps"])))
                            if sq >= 0 and s_ != sq:
                                v.append(("window-payload-seq-mismatch", (n, k, o, s_, sq)))
    return v[:6]
