"""Oracles evaluated on one controlled execution of the threaded runtime (DESIGN 3.4)."""
import collections
import json

from vf.refasync import Ref, compare_obs, compare_record


def lifecycle_violations(job, res):
    v = []
    if res["deadlock"] is not None:
        d = res["deadlock"]
        kind = "livelock-cap" if d.get("cap_hit") else "deadlock"
        last = [c for c in d["calls"] if not c.endswith(":done")]
        v.append((f"{kind}:{last[0] if last else '?'}", dict(blocked=d["blocked"], calls=d["calls"], queues=d.get("queues"))))
    if res["user_exc"] is not None:
        v.append(("user-exception:" + res["user_exc"][0].split("(")[0], res["user_exc"]))
    for (thr, fn, exc) in res["task_errors"]:
        v.append((f"task-exception:{fn}:{exc.split('(')[0]}", (thr, fn, exc, res["task_error_tb"][:1])))
    for (thr, exc, tb) in res["thread_errors"]:
        if thr != "user":
            v.append((f"thread-exception:{exc.split('(')[0]}", (thr, exc, tb)))
    return v


def expected_executions(job, ep):
    """multiset of (node, seq) whose step function must have run exactly once in this episode, from its record."""
    sup = job["spec"]["supervisor"]
    exp = collections.Counter()
    for n, nr in ep["record"].items():
        seqs = nr["steps"]["seq"]
        if n == sup:
            done = (len(ep["obs"]) - 1) if ep["driver"] == "step" else ep.get("runs", 0)
            for s in range(done):
                if s not in ep["overridden"]:
                    exp[(n, s)] += 1
        else:
            for s in seqs:
                exp[(n, s)] += 1
    return exp


def once_violations(job, res):
    v = []
    start = 0
    for ep in res["episodes"]:
        if "record" not in ep:
            continue
        tr = res["trace"][start : ep["trace_len"]]
        start = ep["trace_len"]
        got = collections.Counter((t["node"], t["seq"]) for t in tr)
        wrong_eps = [t for t in tr if t["eps"] != ep["eps"]]
        if wrong_eps:
            v.append(("step-wrong-eps", (wrong_eps[0]["node"], wrong_eps[0]["eps"], ep["eps"])))
        exp = expected_executions(job, ep)
        if got != exp:
            diff = {str(k): (got.get(k, 0), exp.get(k, 0)) for k in set(got) | set(exp) if got.get(k, 0) != exp.get(k, 0)}
            kinds = sorted({("twice" if g > e else "missing") + (":sup" if k.startswith("('" + job["spec"]["supervisor"]) else "") for k, (g, e) in diff.items()})
            v.append(("exactly-once:" + ",".join(kinds), dict(list(diff.items())[:8])))
    return v


def ref_violations(job, res, payload=True):
    v = []
    for ep in res["episodes"]:
        if "record" not in ep:
            continue
        done = (len(ep["obs"]) - 1) if ep["driver"] == "step" else ep.get("runs", 0)
        ref = Ref(job["spec"], init_rng=res["init_rng"], eps=ep["eps"], overridden=ep["overridden"], sup_done=done)
        for sig, det in compare_record(job["spec"], ep["record"], ref, check_payload=payload):
            v.append(("ref:" + sig, det))
        if ep["driver"] == "step":
            for sig, det in compare_obs(job["spec"], ep["obs"], ref):
                v.append(("ref:" + sig, det))
    return v


def outcome_key(job, res):
    if not res["finished"]:
        return "UNFINISHED"
    k = []
    for ep in res["episodes"]:
        if "record" in ep:
            k.append(tuple((n, len(nr["steps"]["seq"])) for n, nr in sorted(ep["record"].items())))
    return hash(json.dumps(k)) & 0xFFFFFFFF


def _done(ep):
    return (len(ep["obs"]) - 1) if ep["driver"] == "step" else ep.get("runs", 0)


def judge_lifecycle(job, res):
    """C05: calls return, no exception out of a call or a task, episodes isolated (seq 0 / time 0 / no stale message)."""
    v = lifecycle_violations(job, res)
    if res["finished"]:
        v += isolation_violations(job, res)
        v += fresh_start_violations(job, res)
    return dict(violations=v, outcome=outcome_key(job, res))


def judge_once(job, res):
    """C06 (threaded half): the step function ran exactly once per recorded tick, zero times for overridden/skipped ones."""
    v = once_violations(job, res) if res["finished"] else []
    return dict(violations=v, outcome=outcome_key(job, res) if res["finished"] else "UNFINISHED")


def judge_c03(job, res):
    from vf.o1 import c03_violations

    v = []
    if res["finished"]:
        for ep in res["episodes"]:
            if "record" in ep:
                v += c03_violations(job["spec"], ep["record"], exact=job.get("clock", "SIM") == "SIM", sup_done=_done(ep))
    return dict(violations=v, outcome=outcome_key(job, res) if res["finished"] else "UNFINISHED")


def judge_c04(job, res):
    """C04: the start-time law evaluated on the recorded values, with the scripted delays as the sampled delays."""
    from vf.o1 import c04_script_violations, c04_violations

    v = []
    if res["finished"]:
        for ep in res["episodes"]:
            if "record" not in ep:
                continue
            v += c04_violations(job["spec"], ep["record"])
            v += c04_script_violations(job["spec"], ep["record"])
    return dict(violations=v, outcome=outcome_key(job, res) if res["finished"] else "UNFINISHED")


def observables(job, res):
    """What C02 compares between executions: per episode the record and the supervisor's observations."""
    return [dict(record=ep.get("record"), obs=ep["obs"], done=_done(ep), overridden=ep["overridden"], driver=ep["driver"]) for ep in res["episodes"]]


def _cmp_prefix(spec, A, B, max_err=6):
    """records A, B (episode observables) must agree on the common prefix of what they recorded."""
    v = []
    sup = spec["supervisor"]

    def err(sig, *d):
        if len(v) < max_err:
            v.append((sig, d))

    ra, rb = A["record"], B["record"]
    if ra is None or rb is None:
        return v
    same_payload = sorted(A["overridden"]) == sorted(B["overridden"])
    for n in ra:
        sa, sb = ra[n]["steps"], rb[n]["steps"]
        K = min(len(sa["seq"]), len(sb["seq"]))
        for f in ("seq", "ts_start", "ts_end", "delay", "ts_scheduled", "ts_max"):
            if sa[f][:K] != sb[f][:K]:
                k = next(i for i in range(K) if sa[f][i] != sb[f][i])
                err("steps." + f, n, k, sa[f][k], sb[f][k])
        Kp = K if n != sup else min(K, min(A["done"], B["done"]) + 1)
        if same_payload:
            for f in ("rng", "state_h", "out_h"):
                if f in sa and f in sb:
                    L = min(Kp, len(sa[f]), len(sb[f]))
                    if n == sup and f == "out_h":
                        L = min(L, A["done"], B["done"])
                    if sa[f][:L] != sb[f][:L]:
                        k = next(i for i in range(L) if sa[f][i] != sb[f][i])
                        err("steps." + f, n, k, sa[f][k], sb[f][k])
            if "inputs" in sa and "inputs" in sb:
                for o in sa["inputs"]:
                    for f in ("seq", "ts_sent", "ts_recv", "data_h"):
                        xa = [[(-1 if (f == "seq" and x < 0) else x) for x in row] for row in sa["inputs"][o][f][:Kp]]
                        xb = [[(-1 if (f == "seq" and x < 0) else x) for x in row] for row in sb["inputs"][o][f][:Kp]]
                        if xa != xb:
                            k = next(i for i in range(Kp) if xa[i] != xb[i])
                            err("window." + f, n, o, k, xa[k], xb[k])
        for o in ra[n]["inputs"]:
            ma, mb = ra[n]["inputs"][o], rb[n]["inputs"][o]
            ta = [(a, b, c, d) for a, b, c, d in zip(ma["seq_out"], ma["seq_in"], ma["ts_sent"], ma["ts_recv"]) if b < K]
            tb = [(a, b, c, d) for a, b, c, d in zip(mb["seq_out"], mb["seq_in"], mb["ts_sent"], mb["ts_recv"]) if b < K]
            if ta != tb:
                err("messages", n, o, ta[:10], tb[:10])
    if A["driver"] == "step" and B["driver"] == "step" and same_payload:
        L = min(len(A["obs"]), len(B["obs"]))
        for k in range(L):
            oa, ob = A["obs"][k], B["obs"][k]
            for o in oa["inputs"]:
                oa["inputs"][o]["seq"] = [(-1 if x < 0 else x) for x in oa["inputs"][o]["seq"]]
                ob["inputs"][o]["seq"] = [(-1 if x < 0 else x) for x in ob["inputs"][o]["seq"]]
            if oa != ob:
                err("supervisor-observation", k, {f: (oa[f], ob[f]) for f in oa if oa[f] != ob[f]})
                break
    return v


def judge_c02(job, res):
    """C02: differential - this execution agrees with the baseline execution of the same graph and initial state
    (other policy / schedule / real-time factor / driver) on the common prefix of what both recorded."""
    v = []
    if job.get("baseline") is not None and (res["deadlock"] is not None or res["user_exc"] is not None):
        # the baseline execution of the same graph completed every call: whether a call returns must not depend on the schedule
        what = ("hang", res["deadlock"]["calls"]) if res["deadlock"] is not None else ("exception", res["user_exc"][0])
        v.append(("differs-from-baseline:call-did-not-complete:" + what[0], what[1]))
    if res["finished"] and res["user_exc"] is None:
        base = job.get("baseline")
        mine = observables(job, res)
        if base is not None:
            # every episode of this job (all started from the same initial graph state when job["same_eps"]) vs the
            # baseline's first episode: a later episode must not depend on what an earlier one left behind
            for i, A in enumerate(mine):
                B = base[i] if (i < len(base) and not job.get("same_eps")) else base[0]
                for sig, det in _cmp_prefix(job["spec"], A, B):
                    v.append((f"differs-from-baseline:{'episode%d:' % i if i else ''}" + sig, det))
    return dict(violations=v, outcome=outcome_key(job, res) if res["finished"] else "UNFINISHED")


def judge_all(job, res):
    """everything at once (used by exploratory runs, not by a registered check)"""
    v = lifecycle_violations(job, res)
    if res["finished"]:
        if job.get("clock", "SIM") == "SIM":
            v += ref_violations(job, res)
        v += once_violations(job, res)
        v += isolation_violations(job, res)
        v += judge_c03(job, res)["violations"]
        if job.get("clock", "SIM") == "SIM":
            v += judge_c04(job, res)["violations"]
    return dict(violations=v, outcome=outcome_key(job, res))


def fresh_start_violations(job, res):
    """'Each new episode starts from ... time 0 on every node and connection': under the simulated clock the first step of
    every node and the first message of every connection of a later episode must carry the same times as in the first
    episode of the job (same graph; these quantities do not depend on the schedule, the driver or the payloads)."""
    v = []
    if job.get("clock", "SIM") != "SIM":
        return v
    eps = [ep for ep in res["episodes"] if "record" in ep]
    if len(eps) < 2:
        return v
    first = eps[0]["record"]
    for ep in eps[1:]:
        for n, nr in ep["record"].items():
            a, b = first[n]["steps"], nr["steps"]
            if a["seq"] and b["seq"]:
                for f in ("ts_scheduled", "ts_start", "ts_end"):
                    if a[f][0] != b[f][0]:
                        v.append(("episode-first-step-time-differs-from-first-episode", (n, f, a[f][0], b[f][0], "episode", ep["eps"])))
            for o, mb in nr["inputs"].items():
                ma = first[n]["inputs"][o]
                if ma["seq_out"] and mb["seq_out"]:
                    for f in ("ts_sent", "ts_recv"):
                        if ma[f][0] != mb[f][0]:
                            v.append(("episode-first-message-time-differs-from-first-episode", (n, o, f, ma[f][0], mb[f][0], "episode", ep["eps"])))
                elif ma["seq_out"] and not mb["seq_out"] and len(b["seq"]) > ma["seq_in"][0]:
                    # the later episode ran the consumer past the step that consumed the first message in the first episode,
                    # yet consumed nothing: its first message was held back by something left over from before
                    v.append(("episode-first-message-missing", (n, o, "first episode: consumed by step", ma["seq_in"][0], "this episode ran", len(b["seq"]), "steps", "episode", ep["eps"])))
    return v[:4]


def isolation_violations(job, res):
    """Every episode starts at seq 0 / its phase-determined first start, and every consumed payload was produced in
    the current episode (tag = (producer, eps, seq)) or is the default output (eps = -1)."""
    v = []
    for ep in res["episodes"]:
        if "record" not in ep:
            continue
        for n, nr in ep["record"].items():
            st = nr["steps"]
            if st["seq"] and st["seq"][0] != 0:
                v.append(("episode-first-seq", (n, st["seq"][:3])))
            # "starts from time 0": the first step starts at the node's phase (simulated clock, no blocking input), and
            # in any case within a few periods of it (blocking inputs / wall-clock scheduling noise)
            rate = job["spec"]["nodes"][n]["rate"]
            if st["seq"] and not (0.0 <= st["ts_start"][0] <= nr["phase"] + 4.0 / rate + 0.05):
                v.append(("episode-first-ts", (n, st["ts_start"][0], "phase", nr["phase"])))
            if st["seq"] and job.get("clock", "SIM") == "WALL":
                # wall clock: the first step also *ends* within its (scripted) duration of the episode's time 0; time spent
                # before the episode started (start-up hooks) is not episode time
                comp = job["spec"]["nodes"][n]["comp"]
                dur = max([comp["nominal"]] + list(comp.get("script", []))) / 64.0
                if st["ts_end"][0] > nr["phase"] + 4.0 / rate + 0.05 + 2 * dur:
                    v.append(("episode-first-step-ends-late", (n, st["ts_end"][0], "phase", nr["phase"], "duration", dur)))
            if any(e != st["eps"][0] for e in st["eps"]):
                v.append(("episode-eps-mixed", (n, st["eps"])))
            for o, ms in nr["inputs"].items():
                if ms["seq_out"] and ms["seq_out"][0] != 0:
                    v.append(("episode-first-msg-seq", (n, o, ms["seq_out"][:3])))
            if "inputs" in st:
                for o, w in st["inputs"].items():
                    for k, tags in enumerate(w["data_tag"]):
                        for (pid, e_, s_), sq in zip(tags, w["seq"][k]):
                            if sq >= 0 and e_ != ep["eps"]:
                                v.append(("stale-message", (n, k, o, (pid, e_, s_), ep["eps"])))
                            if sq >= 0 and s_ != sq:
                                v.append(("window-payload-seq-mismatch", (n, k, o, s_, sq)))
    return v[:6]
