"""C19 reference models: plain Python / numpy bookkeeping of what every rex.rl wrapper is documented to do.

No rex, no jax.  States are nested tuples (hashable: distinct reference states are counted), every model is functional:
    reset(ctx) -> (state, obs, info, meta)
    step(state, action, ctx) -> (state, obs, reward, terminated, truncated, info, meta)
`ctx` carries the environment's nondeterministic answers that no model can predict (the random draw of an initial
state: `ctx.fresh[i]` = (u, uid) read off the real run for environment i) and collects which draws were consumed.

The probe environment (vf/c19_probe.py) in words: the world counts its steps (n), remembers the last action it received
(last) and the sum of all actions received (acc), all within one episode; u/uid are drawn when the initial state is
made.  The agent observes [last, n, acc, u, number of agent steps]; the reward is the (half-quantised) action, 7
terminates and 8 truncates.
"""
import math

import numpy as np

DEFAULT_ACT = -64.0
TERM_LO, TRUNC_LO = 6.5, 7.5
PRIOR_COUNT, PRIOR_MEAN, PRIOR_VAR = 1e-4, 0.0, 1.0  # the pseudo-observation rex's running statistics start from
EPS32 = float(np.finfo(np.float32).eps)
CLIP = 10.0


def quant(a):
    return float(np.round(np.float32(a) * np.float32(2.0)) / 2.0)


class Ctx:
    def __init__(self, fresh):
        self.fresh = fresh  # list over environments of (u, uid)
        self.i = 0  # environment index the call currently concerns
        self.draws = []  # (env index, uid) consumed by this call


# ------------------------------------------------------------------------------------------------
class EnvM:
    """Environment on the probe graph. state = (t, n, last, acc, u, uid, seen, eps)."""

    def __init__(self, only_init=False, starting_eps=0, adim=1):
        self.only_init, self.eps, self.adim = only_init, starting_eps, adim

    def reset(self, ctx):
        u, uid = ctx.fresh[ctx.i]
        ctx.draws.append((ctx.i, uid))
        # only_init: "the first partition before the first supervisor will not be run": the world has not stepped and the
        # agent still sees the world's default output
        st = (0, 0 if self.only_init else 1, DEFAULT_ACT, 0.0, u, uid, not self.only_init, self.eps)
        return st, self.obs(st), self.info(st, None), dict(reset=False, act_in=None)

    @staticmethod
    def obs(st):
        t, n, last, acc, u, uid, seen, eps = st
        return (last, float(n), acc, u, float(t)) if seen else (DEFAULT_ACT, -1.0, 0.0, -1.0, float(t))

    def info(self, st, a):
        return dict(w_n=st[1], w_acc=st[3], act=tuple([math.nan] * self.adim) if a is None else tuple(float(x) for x in a))

    def step(self, st, a, ctx):
        t, n, last, acc, u, uid, seen, eps = st
        q = quant(a[0])
        st2 = (t + 1, n + 1, q, acc + q, u, uid, True, eps)
        te = TERM_LO <= q < TRUNC_LO
        tr = q >= TRUNC_LO
        return st2, self.obs(st2), q, te, tr, self.info(st2, a), dict(reset=False, act_in=tuple(float(x) for x in a), sup_out=q)

    @staticmethod
    def proj(st):
        t, n, last, acc, u, uid, seen, eps = st
        d = dict(step=t + 1, eps=eps, seq_agent=t, w_n=n, w_last=last, w_acc=acc, w_u=u, w_uid=uid)
        if seen:
            d.update(in_n=n, in_last=last, in_acc=acc, in_u=u)
        else:
            d.update(in_n=-1, in_last=DEFAULT_ACT, in_acc=0.0, in_u=-1.0)
        return d


class AutoM:
    """After a done: next state/obs = the stored (fixed) or a freshly drawn initial one; reward/flags of the finished episode."""

    def __init__(self, inner, fixed):
        self.inner, self.fixed = inner, fixed

    def reset(self, ctx):
        st, obs, info, meta = self.inner.reset(ctx)
        return (st, (st, obs) if self.fixed else None), obs, info, meta

    def step(self, S, a, ctx):
        st, init = S
        st2, obs, r, te, tr, info, meta = self.inner.step(st, a, ctx)
        if te or tr:
            if self.fixed:
                st2, obs = init
            else:
                st2, obs, _, _ = self.inner.reset(ctx)
            meta = dict(meta, reset=True)
        return (st2, init), obs, r, te, tr, info, meta

    def proj(self, S):
        return self.inner.proj(S[0])


class LogM:
    """state = (inner, running return, running length). At a done: report them (incl. this step) and start again."""

    def __init__(self, inner):
        self.inner = inner

    def reset(self, ctx):
        st, obs, info, meta = self.inner.reset(ctx)
        return (st, 0.0, 0), obs, info, meta

    def step(self, S, a, ctx):
        st, ret, ln = S
        st2, obs, r, te, tr, info, meta = self.inner.step(st, a, ctx)
        ret, ln = ret + r, ln + 1
        done = te or tr
        info = dict(info, returned_episode=done)
        if done:
            info.update(returned_episode_returns=ret, returned_episode_lengths=ln)
            ret, ln = 0.0, 0
        return (st2, ret, ln), obs, r, te, tr, info, meta

    def proj(self, S):
        return self.inner.proj(S[0])


class ActM:
    """squash: action -> low + (tanh(x)+1)/2 (high-low); otherwise (and ClipActionWrapper): clip to [low, high]."""

    def __init__(self, inner, low, high, squash):
        self.inner, self.low, self.high, self.squash = inner, np.asarray(low, np.float64), np.asarray(high, np.float64), squash

    def reset(self, ctx):
        return self.inner.reset(ctx)

    def transform(self, x):
        x = np.asarray(x, np.float64)
        if self.squash:
            return 0.5 * (np.tanh(x) + 1.0) * (self.high - self.low) + self.low
        return np.clip(x, self.low, self.high)

    def step(self, S, x, ctx):
        a = self.transform(x)
        out = self.inner.step(S, tuple(a.tolist()), ctx)
        meta = dict(out[-1], act_tol=self.squash)
        return out[:-1] + (meta,)

    def proj(self, S):
        return self.inner.proj(S)


def inverse_transform(a, low, high, squash):
    """the explorer's encoding of an inner action as a wrapper-level action (float64)"""
    if not squash:
        return float(a)
    t = 2.0 * (a - low) / (high - low) - 1.0
    if t <= -1.0:
        return -math.inf
    if t >= 1.0:
        return math.inf
    return math.atanh(t)


class VecM:
    def __init__(self, inner, n):
        self.inner, self.n = inner, n

    def reset(self, ctx):
        res = []
        for i in range(self.n):
            ctx.i = i
            res.append(self.inner.reset(ctx))
        return tuple(r[0] for r in res), tuple(r[1] for r in res), [r[2] for r in res], dict(vec=[r[3] for r in res])

    def step(self, S, A, ctx):
        res = []
        for i in range(self.n):
            ctx.i = i
            res.append(self.inner.step(S[i], A[i], ctx))
        return (tuple(r[0] for r in res), tuple(r[1] for r in res), tuple(r[2] for r in res), tuple(r[3] for r in res), tuple(r[4] for r in res),
                [r[5] for r in res], dict(vec=[r[6] for r in res]))

    def proj(self, S):
        return [self.inner.proj(s) for s in S]


def running_stats(samples):
    """mean and (population) variance of everything seen so far, started from rex's pseudo-observation of weight 1e-4
    (mean 0, variance 1).  samples: array [N, ...]."""
    X = np.asarray(samples, np.float64)
    tot = PRIOR_COUNT + X.shape[0]
    mean = (PRIOR_COUNT * PRIOR_MEAN + X.sum(0)) / tot
    ex2 = (PRIOR_COUNT * (PRIOR_VAR + PRIOR_MEAN**2) + (X**2).sum(0)) / tot
    return mean, ex2 - mean**2, tot


class NormObsM:
    """state = (inner, all observation rows seen so far)."""

    def __init__(self, inner, clip=CLIP):
        self.inner, self.clip = inner, clip

    def _norm(self, hist, obs):
        mean, var, tot = running_stats(hist)
        x = np.asarray(obs, np.float64)
        y = np.clip((x - mean) / np.sqrt(var + 1e-8), -self.clip, self.clip)
        return y, dict(mean=mean, var=var, count=tot, scale=np.max(np.abs(np.asarray(hist, np.float64)), axis=0), clipped=int((np.abs(y) >= self.clip).sum()))

    def reset(self, ctx):
        st, obs, info, meta = self.inner.reset(ctx)
        hist = tuple(obs)
        y, stats = self._norm(hist, obs)
        return (st, hist), y, info, dict(meta, norm_obs=stats)

    def step(self, S, A, ctx):
        st, hist = S
        st2, obs, r, te, tr, info, meta = self.inner.step(st, A, ctx)
        hist = hist + tuple(obs)
        y, stats = self._norm(hist, obs)
        return (st2, hist), y, r, te, tr, info, dict(meta, norm_obs=stats)

    def proj(self, S):
        return self.inner.proj(S[0])


class NormRewM:
    """state = (inner, discounted return per environment, all return values seen so far).
    return <- return * gamma * (1 - done) + reward (the rule of gym's NormalizeReward that rex cites), reward / std(returns)."""

    def __init__(self, inner, gamma, n, clip=CLIP):
        self.inner, self.gamma, self.n, self.clip = inner, float(np.float32(gamma)), n, clip

    def reset(self, ctx):
        st, obs, info, meta = self.inner.reset(ctx)
        return (st, tuple([0.0] * self.n), ()), obs, info, meta

    def step(self, S, A, ctx):
        st, ret, hist = S
        st2, obs, r, te, tr, info, meta = self.inner.step(st, A, ctx)
        ret = tuple(ret[i] * self.gamma * (0.0 if (te[i] or tr[i]) else 1.0) + r[i] for i in range(self.n))
        hist = hist + ret
        mean, var, tot = running_stats(hist)
        rn = np.clip(np.asarray(r, np.float64) / np.sqrt(var + 1e-8), -self.clip, self.clip)
        stats = dict(mean=mean, var=var, count=tot, return_val=np.asarray(ret), scale=max(abs(x) for x in hist), clipped=int((np.abs(rn) >= self.clip).sum()))
        return (st2, ret, hist), obs, rn, te, tr, info, dict(meta, norm_reward=stats)

    def proj(self, S):
        return self.inner.proj(S[0])


def build_model(spec):
    e = spec.get("env", {})
    low, high = tuple(e.get("low", (-9.0,))), tuple(e.get("high", (8.0,)))
    m = EnvM(only_init=bool(e.get("only_init", False)), starting_eps=int(e.get("starting_eps", 0)), adim=len(low))
    n = 0
    for layer in spec.get("layers", []):
        kind, _, arg = layer.partition(":")
        if kind == "auto":
            m = AutoM(m, arg == "fixed")
        elif kind == "log":
            m = LogM(m)
        elif kind == "squash":
            m = ActM(m, low, high, arg == "1")
        elif kind == "clip":
            m = ActM(m, low, high, False)
        elif kind == "vec":
            n = int(arg)
            m = VecM(m, n)
        elif kind == "nobs":  # "nobs" or "nobs:<clip>"
            m = NormObsM(m, float(arg) if arg else CLIP)
        elif kind == "nrew":  # "nrew:<gamma>" or "nrew:<gamma>:<clip>"
            g, _, c = arg.partition(":")
            m = NormRewM(m, float(g), n, float(c) if c else CLIP)
        else:
            raise ValueError(layer)
    return m


# ------------------------------------------------------------------------------------------------
# expectations: path -> (value, atol, mask).  atol == 0: exact.  mask False: the property says nothing here.
# ------------------------------------------------------------------------------------------------
RTOL = 1e-4  # relative part of every non-exact comparison (float32 running moments after <= 8 merges: ~1e-6 expected)


def expectations(spec, model, state, obs, step, info, meta, seen_uids, ctx):
    """step = None (reset) or (reward, terminated, truncated)."""
    layers = spec.get("layers", [])
    n = 0
    for layer in layers:
        if layer.startswith("vec:"):
            n = int(layer.split(":")[1])
    vec = n > 0
    has = lambda k: any(x.split(":")[0] == k for x in layers)  # noqa
    metas = meta["vec"] if "vec" in meta else [meta]
    infos = info if vec else [info]
    was_reset = np.array([bool(m.get("reset", False)) for m in metas])
    arr = (lambda x: np.asarray(x)) if vec else (lambda x: np.asarray(x)[0])
    exp = {}
    # --- observation
    if has("nobs"):
        st = meta["norm_obs"]
        atol_mean = 8 * EPS32 * np.maximum(st["scale"], 1.0)  # float32 running mean: about an ulp of the largest sample per merge, <= 8 merges
        std = np.sqrt(st["var"] + 1e-8)
        # (x - mean)/std: the cancellation error of x - mean is amplified by 1/std (std is tiny when all samples coincide)
        exp["obs"] = (np.asarray(obs), (atol_mean + EPS32 * st["scale"]) / std + 1e-6, True)
        exp["norm_obs/mean"] = (st["mean"], atol_mean, True)
        exp["norm_obs/var"] = (st["var"], 4 * EPS32 * np.maximum(st["scale"], 1.0) ** 2, True)  # squares of samples: ulp of scale^2
        exp["norm_obs/count"] = (st["count"], 1e-5, True)
    else:
        exp["obs"] = (arr(np.asarray(obs, np.float64).reshape((max(n, 1), -1))), 0.0, True)
    # --- reward, flags
    if step is not None:
        r, te, tr = step
        if has("nrew"):
            st = meta["norm_reward"]
            sc = max(st["scale"], 1.0)
            exp["reward"] = (np.asarray(r), 1e-6, True)
            exp["norm_reward/mean"] = (st["mean"], 8 * EPS32 * sc, True)
            exp["norm_reward/var"] = (st["var"], 4 * EPS32 * sc * sc, True)
            exp["norm_reward/count"] = (st["count"], 1e-5, True)
            exp["norm_reward/return_val"] = (st["return_val"], 4 * EPS32 * sc, True)
        else:
            exp["reward"] = (arr(np.atleast_1d(np.asarray(r, np.float64))), 0.0, True)
        exp["terminated"] = (arr(np.atleast_1d(np.asarray(te))), 0.0, True)
        exp["truncated"] = (arr(np.atleast_1d(np.asarray(tr))), 0.0, True)
        done = np.atleast_1d(np.logical_or(te, tr))
        # --- environment info passes through unless the episode was reset (then it is the initial info: not stated)
        keep = ~was_reset
        exp["info/w_n"] = (arr(np.array([i["w_n"] for i in infos])), 0.0, arr(keep))
        exp["info/w_acc"] = (arr(np.array([i["w_acc"] for i in infos])), 0.0, arr(keep))
        act = np.array([i["act"] for i in infos], np.float64)
        tol = any(m.get("act_tol", False) for m in metas)
        e = spec.get("env", {})
        rng_scale = max(max(abs(x) for x in e.get("low", (-9.0,))), max(abs(x) for x in e.get("high", (8.0,))))
        # squash: float32 tanh + affine map, error a few ulp of the bound magnitude; clip: exact
        exp["info/act"] = (arr(act), 8 * EPS32 * rng_scale * 2 if tol else 0.0, arr(keep[:, None] & np.ones_like(act, bool)))
        if has("squash") or has("clip"):
            exp["act_in_bounds"] = (arr(np.ones_like(act, bool)), 0.0, arr(keep[:, None] & np.ones_like(act, bool)))
        if has("log"):
            exp["info/returned_episode"] = (arr(done), 0.0, True)
            exp["info/returned_episode_returns"] = (arr(np.array([i.get("returned_episode_returns", 0.0) for i in infos])), 0.0, arr(done))
            exp["info/returned_episode_lengths"] = (arr(np.array([i.get("returned_episode_lengths", 0) for i in infos])), 0.0, arr(done))
        if has("auto"):
            fixed = "auto:fixed" in layers
            exp["eq0_strict" if fixed else "eq0_mod_draw"] = (arr(np.ones(max(n, 1), bool)), 0.0, arr(was_reset))
        if spec.get("direct", False):
            exp["eq_direct"] = (np.asarray(True), 0.0, True)
            exp["sup_out"] = (np.asarray([metas[0]["sup_out"]]), 0.0, True)
    elif spec.get("direct", False):
        exp["eq_direct"] = (np.asarray(True), 0.0, True)
    # --- abstract projection of the graph state(s)
    pj = model.proj(state)
    pj = pj if vec else [pj]
    for k in pj[0]:
        exp["proj/" + k] = (arr(np.array([p[k] for p in pj])), 0.0, True)
    # --- freshness of drawn initial states
    drew = np.zeros(max(n, 1), bool)
    ok = np.ones(max(n, 1), bool)
    for i, uid in ctx.draws:
        drew[i] = True
        if uid in seen_uids:
            ok[i] = False
        seen_uids = seen_uids | {uid}
    exp["fresh_ok"] = (arr(np.ones(max(n, 1), bool)), 0.0, arr(drew))
    return exp, arr(ok), seen_uids
