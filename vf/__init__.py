"""Model-checking machinery for bheijden/rex (see /verif/DESIGN.md)."""
