"""C16 worker-side procedures: alphabets, expansion of one configuration by every enabled operation on the real code
against the reference model, attribute-product cases, simulation cases."""
import hashlib
import itertools

from vf import c16_ref as R

NAMES = ("a", "b", "c")
NAMESET = set(NAMES) | {"shadow"}

INITS = {
    # all defaults: Normal(0,0) computation delay, expected delay = its 0.99 quantile = 0
    "I0": [dict(name="a", rate=16), dict(name="b", rate=8), dict(name="c", rate=4)],
    # constructor given a distribution only / a delay only / a stochastic distribution only
    "I1": [dict(name="a", rate=16, dist="D1", color="pink", order=0), dict(name="b", rate=8, delay=3 / 64, color="teal", order=1),
           dict(name="c", rate=4, dist="N3")],
}

FULL_DISTS = [None, "D1", "N3", "S3"]
FULL_DELAYS = [None, 0.0, 1 / 64, 3 / 64]
NARROW_CONNECT = [(None, None), ("D1", None), (None, 3 / 64)]
NARROW_SET = [("D1", None), (None, 3 / 64), ("N3", 1 / 64)]


def ops(ref, alpha):
    """Every operation of the alphabet that is enabled in the configuration `ref` (set_delay on a connection needs the
    connection to exist)."""
    out = []
    if alpha == "full":
        settings = list(itertools.product(FULL_DISTS, FULL_DELAYS))
        for x in NAMES:
            for y in NAMES:
                for blocking in (False, True):
                    for skip in (False, True):
                        for d, l in settings:
                            out.append(["connect", x, y, blocking, skip, d, l])
        for x in NAMES:
            for d, l in settings:
                out.append(["nset", x, d, l])
        for x in NAMES:
            for k in ref.inputs[x]:
                for d, l in settings:
                    out.append(["cset", x, k, d, l])
    elif alpha in ("narrow", "narrow6"):
        for x in NAMES:
            for y in NAMES:
                if alpha == "narrow6" and x == y:
                    continue  # no self connections in the depth-4 family
                for skip in (False, True):
                    for d, l in NARROW_CONNECT:
                        out.append(["connect", x, y, False, skip, d, l])
        for x in NAMES:
            for d, l in NARROW_SET:
                out.append(["nset", x, d, l])
        for x in NAMES:
            for k in ref.inputs[x]:
                for d, l in NARROW_SET:
                    out.append(["cset", x, k, d, l])
    else:
        raise ValueError(alpha)
    return out


def build_ref(init, history):
    ref = R.Ref(init)
    for op in history:
        ref.apply(op)
    return ref


def digest(canon):
    return int.from_bytes(hashlib.blake2b(repr(canon).encode(), digest_size=8).digest(), "big")


def _strip_color(obs):
    return {n: {k: v for k, v in o.items() if k != "color"} for n, o in obs.items()}


def compare_state(ref, nodes, extra_frames):
    """(difference or None, expected observation)."""
    from vf import c16_real as X

    exp = ref.observe()
    got = X.normalise_loops(ref, X.observe(nodes, extra_frames))
    return R.diff(exp, got), exp


def compare_round_trip(ref, nodes, exp, extra_frames):
    """Rebuild from infos and compare with the same reference configuration. Returns (status, difference):
    status 'loop' when an info cannot be taken because of an algebraic loop (nothing to rebuild from)."""
    from vf import c16_real as X

    if any(o["info"] == R.LOOP for o in exp.values()):
        return "loop", None
    try:
        with X.shallow_recursion(extra_frames):
            rebuilt = X.round_trip(nodes)
    except Exception as e:  # noqa
        return "done", (("<round_trip raised>",), "rebuilt nodes", f"{type(e).__name__}: {str(e)[:200]}")
    got = X.normalise_loops(ref, X.observe(rebuilt, extra_frames))
    # the attribute node.color is not part of "infos, phases and connections" (info.color is, and is compared)
    return "done", R.diff(_strip_color(exp), _strip_color(got))


class Findings:
    def __init__(self):
        self.by_sig = {}

    def add(self, sig, what, replay, size):
        e = self.by_sig.setdefault(sig, dict(count=0, examples=[]))
        e["count"] += 1
        e["examples"].append((size, what, replay))
        e["examples"].sort(key=lambda t: (t[0], repr(t[2])))
        del e["examples"][2:]

    def merge(self, other_by_sig):
        for sig, e in other_by_sig.items():
            m = self.by_sig.setdefault(sig, dict(count=0, examples=[]))
            m["count"] += e["count"]
            m["examples"].extend(tuple(x) for x in e["examples"])
            m["examples"].sort(key=lambda t: (t[0], repr(t[2])))
            del m["examples"][2:]


def _what(kind, d, history):
    path, exp, got = d
    return dict(kind=kind, history=history, field="/".join(map(str, path)), expected=exp, observed=got)


def check_history(init, history, extra_frames=240, rt=True):
    """Replay-level: build the history from scratch on the real code, compare the final configuration and its round trip."""
    from vf import c16_real as X

    ref = build_ref(init, history)
    nodes = X.build(init, history)
    out = []
    d, exp = compare_state(ref, nodes, extra_frames)
    if d:
        out.append(("state", d))
    elif rt:
        st, d2 = compare_round_trip(ref, nodes, exp, extra_frames)
        if d2:
            out.append(("roundtrip", d2))
    return out


def expand_task(arg):
    """arg: dict(init=key, alpha=..., histories=[...], extra_frames=int). For every history: build the real configuration
    from scratch, check it, then apply every enabled operation to an independent copy and check the result, its round
    trip, and that the original was not disturbed."""
    from vf import c16_real as X
    from vf.common import HarnessError

    init = INITS[arg["init"]]
    extra = arg["extra_frames"]
    f = Findings()
    cnt = dict(bases=0, bases_diverged=0, transitions=0, traces=0, round_trips=0, rt_loop=0, loop_states=0, noop=0)
    succ = set()
    by_kind = {}
    for history in arg["histories"]:
        history = [list(op) for op in history]
        ref = build_ref(init, history)
        nodes = X.build(init, history)
        cnt["bases"] += 1
        cnt["traces"] += 1
        d, exp0 = compare_state(ref, nodes, extra)
        if d:
            # already reported by the transition that produced this configuration (or here for the initial one)
            cnt["bases_diverged"] += 1
            if not history:
                f.add("init:" + R.path_class(d[0], NAMESET), _what("init", d, history), dict(kind="hist", init=arg["init"], history=history, extra_frames=extra), 0)
            continue
        c0 = ref.canon()
        for op in ops(ref, arg["alpha"]):
            ref2 = ref.copy()
            ref2.apply(op)
            nodes2 = X.clone(nodes)
            h2 = history + [op]
            cnt["transitions"] += 1
            cnt["traces"] += 1
            by_kind[op[0]] = by_kind.get(op[0], 0) + 1
            rp = dict(kind="hist", init=arg["init"], history=h2, extra_frames=extra)
            try:
                X.apply(nodes2, op)
            except Exception as e:  # noqa
                f.add(f"{op[0]}:raised", dict(kind="op raised", history=h2, error=f"{type(e).__name__}: {str(e)[:300]}"), rp, len(h2))
                continue
            c2 = ref2.canon()
            succ.add(digest(c2))
            cnt["noop"] += int(c2 == c0)
            d, exp = compare_state(ref2, nodes2, extra)
            if d:
                f.add(f"{op[0]}:" + R.path_class(d[0], NAMESET), _what("after " + op[0], d, h2), rp, len(h2))
                continue
            cnt["loop_states"] += int(any(o["phase"] == R.LOOP for o in exp.values()))
            st, d2 = compare_round_trip(ref2, nodes2, exp, extra)
            if st == "loop":
                cnt["rt_loop"] += 1
            else:
                cnt["round_trips"] += 1
                cnt["traces"] += 1
                if d2:
                    f.add("roundtrip:" + R.path_class(d2[0], NAMESET), _what("round trip", d2, h2), rp, len(h2))
        # the copies must be independent of the configuration they were taken from
        d, _ = compare_state(ref, nodes, extra)
        if d:
            raise HarnessError(f"C16: base configuration changed while expanding {history}: {d}")
    return dict(cnt=cnt, findings=f.by_sig, succ=succ, by_kind=by_kind)


# ------------------------------------------------------------------------------------------------------------
# attribute product (round trip of everything an info carries)
# ------------------------------------------------------------------------------------------------------------
def attr_cases():
    cases = []
    for advance, scheduling, color, order in itertools.product((False, True), ("FREQUENCY", "PHASE"), (None, "pink"), (None, 2)):
        for blocking, skip, window, jitter, name in itertools.product((False, True), (False, True), (1, 3), ("LATEST", "BUFFER"), (None, "shadow")):
            for dist, delay in ((None, None), ("S3", 1 / 64)):
                init = [dict(name="a", rate=16, advance=advance, scheduling=scheduling, color=color, order=order, dist=dist, delay=delay),
                        dict(name="b", rate=8), dict(name="c", rate=4, dist="D1")]
                extra = dict(window=window, jitter=jitter)
                if name:
                    extra["name"] = name
                hist = [["connect", "b", "a", blocking, skip, dist, delay, extra], ["connect", "c", "b", False, False, None, None]]
                cases.append(dict(init=init, history=hist, shadow=bool(name)))
    return cases


def attr_task(cases):
    f = Findings()
    cnt = dict(cases=0, traces=0)
    for c in cases:
        cnt["cases"] += 1
        cnt["traces"] += 2
        for kind, d in check_history(c["init"], c["history"]):
            rp = dict(kind="hist", init=c["init"], history=c["history"], extra_frames=240)
            tag = "attr" if kind == "state" else "roundtrip"
            sig = f"{tag}:" + R.path_class(d[0], NAMESET) + (":shadow_name" if c["shadow"] and kind == "roundtrip" else "")
            f.add(sig, _what(kind, d, c["history"]), rp, 2 + int(c["shadow"]))
    return dict(cnt=cnt, findings=f.by_sig)


# ------------------------------------------------------------------------------------------------------------
# simulation
# ------------------------------------------------------------------------------------------------------------
def _dist_law(samples, dist):
    """None if the samples are consistent with the configured distribution, else a description.
    Deterministic / scale 0: every sample equals loc (float32 timestamps below 1 s: rounding < 1e-6).
    Normal(loc, s > 0): samples are max(N(loc, s), 0); all within 8 s of loc (probability of a false alarm per sample
    1e-15) and not all identical."""
    kind, loc, scale, _ = dist
    if len(samples) == 0:
        return None
    if kind == "Deterministic" or not scale:
        bad = [float(s) for s in samples if abs(s - loc) > R.TOL]
        return f"expected every delay = {loc}, saw {bad[:4]}" if bad else None
    bad = [float(s) for s in samples if abs(s - loc) > 8 * scale + R.TOL]
    if bad:
        return f"expected delays within 8 sigma of {loc} (sigma {scale}), saw {bad[:4]}"
    if len(samples) >= 3 and max(samples) - min(samples) == 0:
        return f"expected stochastic delays Normal({loc}, {scale}), saw the constant {float(samples[0])}"
    return None


def check_sim(initkey_or_spec, history, ts_max=0.5, seed=0):
    from vf import c16_real as X

    init = INITS[initkey_or_spec] if isinstance(initkey_or_spec, str) else initkey_or_spec
    ref = build_ref(init, history)
    nodes = X.build(init, history)
    exp = ref.observe()
    out = []
    vs, es = X.simulate(nodes, ts_max, seed)
    want_edges = {(e["out"], e["inn"]) for n in exp for e in exp[n]["inputs"].values()}
    if set(vs) != set(exp) or set(es) != want_edges:
        out.append(("sim:structure", dict(expected=[sorted(exp), sorted(want_edges)], observed=[sorted(vs), sorted(es)])))
        return out, 0
    nsamples = 0
    for n, o in exp.items():
        v = vs[n]
        nsamples += len(v["ts_start"])
        if abs(v["ts_start"][0] - o["phase"]) > R.TOL:
            out.append(("sim:vertex.phase", dict(node=n, expected_first_start=o["phase"], observed=float(v["ts_start"][0]))))
        msg = _dist_law(v["ts_end"] - v["ts_start"], o["dist"])
        if msg:
            out.append(("sim:vertex.duration", dict(node=n, configured=o["dist"], detail=msg)))
        for e in o["inputs"].values():
            ed = es[(e["out"], e["inn"])]
            sent = vs[e["out"]]
            valid = sent["seq"] != -1
            nsamples += int(valid.sum())
            msg = _dist_law((ed["ts_recv"] - sent["ts_end"])[valid], e["dist"])
            if msg:
                out.append(("sim:edge.delay", dict(connection=[e["out"], e["inn"]], configured=e["dist"], detail=msg)))
    return out, nsamples


_SIMS = [0]


def _release_compiled_code():
    """Every generate_graphs call compiles fresh XLA programs (closures over the nodes), and jax keeps them: about 200
    memory mappings per call, so a worker that simulates a few hundred configurations runs into vm.max_map_count
    ('LLVM ERROR: Unable to allocate section memory'). Drop jax's caches whenever the process holds many mappings."""
    import gc

    _SIMS[0] += 1
    try:
        with open("/proc/self/maps") as fh:
            many = sum(1 for _ in fh) > 12000
    except OSError:
        many = _SIMS[0] % 20 == 0
    if many:
        import jax

        jax.clear_caches()
        gc.collect()


def sim_task(cases):
    f = Findings()
    cnt = dict(cases=0, traces=0, samples=0)
    for c in cases:
        cnt["cases"] += 1
        cnt["traces"] += 1
        found, ns = check_sim(c["init"], c["history"], c["ts_max"], c["seed"])
        _release_compiled_code()
        cnt["samples"] += ns
        for sig, detail in found:
            rp = dict(kind="sim", init=c["init"], history=c["history"], ts_max=c["ts_max"], seed=c["seed"])
            f.add(sig, dict(kind="simulation", history=c["history"], **detail), rp, len(c["history"]))
    return dict(cnt=cnt, findings=f.by_sig)
