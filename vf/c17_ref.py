"""C17 reference side: tree grammar, masks, chain alphabet and a plain numpy model of the transforms.

Nothing in this file imports jax, flax or rex.  A *shape* is a JSON-able description of a parameter tree:

    "L"                       a leaf that carries a value
    "N"                       a None leaf (parameter absent / not optimised)
    ["D", [key, T], ...]      a dict with 0, 1 or 2 entries (keys in insertion order, deliberately not sorted)
    ["S", T, T]               a flax struct dataclass with the two fields u, v

A *reference tree* is the same thing with values:  None | Leaf | dict | ("S", u, v).
A *path* is a list of steps ["k", key] (dict item) / ["f", "u"|"v"] (dataclass field).

Leaf values are float64 arrays `v` together with an absolute error bound `e` (same shape) that a correctly rounded
float32 evaluation of the same operation sequence can deviate from `v` (running error analysis, first order; the
comparison uses 2*e to cover the second-order terms and refuses to compare where the bound stops being small).
An operation whose exact result is representable in float32 and whose inputs carry no error contributes no error,
so on the dyadic value set the comparison of Denormalize is *exact* (|real - ref| <= 0).
"""
import itertools

import numpy as np

VALUES = [-2.0, -1.0, 0.0, 0.5, 1.0, 3.0]  # leaf alphabet (all exactly representable, dyadic)
PAIRS = [(a, b) for a in VALUES for b in VALUES if a < b]  # 15 ordered (min, max) pairs
# Very narrow but legal (min < max) bounds, max - min < 2e-6.  All end points are dyadic, so (max-min)/2, (min+max)/2 and
# every product x*scale for x in VALUES / GRID are exactly representable: the float32 round trip x -> x*scale+offset ->
# (y-offset)/scale is *exact* on them and is demanded with tolerance 0 by the running error bound (no conditioning
# argument needed).  [2^-22, 2^-20] ~ [2.4e-7, 9.5e-7] and [-3*2^-22, 2^-23] ~ [-7.2e-7, 1.2e-7] are also well conditioned
# for arbitrary x (max-min is ~2^21 ulps of max); [1, 1+2^-20] has max-min = 8 ulps of max, i.e. it would be ill conditioned
# for general x, but stays exact on the half-integer alphabet (x*scale is a multiple of 2^-22, twice ulp(1) = 2^-23).
NARROW = [(2.0 ** -22, 2.0 ** -20), (1.0, 1.0 + 2.0 ** -20), (-3 * 2.0 ** -22, 2.0 ** -23)]
GRID = [-1.0, -0.5, 0.0, 0.5, 1.0]  # monotonicity grid of the normalised domain
U32 = 2.0 ** -24  # unit roundoff of float32
F32_MAX = 3.0e38
F32_TINY = 1.2e-38
K_TRANSC = 4.0  # exp/log of XLA:CPU are accurate to a few ulp (not correctly rounded); 4 ulp allowed
REL_LIMIT = 1e-3  # beyond this relative uncertainty the first-order bound is not trusted: not compared


# ------------------------------------------------------------------------------------------------
# grammar
# ------------------------------------------------------------------------------------------------
def shapes(depth):
    """All shapes of depth <= depth.  depth 1: leaf | None; deeper: + empty dict, dict of 1, dict of 2, dataclass."""
    if depth <= 1:
        return ["L", "N"]
    sub = shapes(depth - 1)
    out = ["L", "N", ["D"]]
    out += [["D", ["a", t]] for t in sub]
    out += [["D", ["b", t1], ["a", t2]] for t1 in sub for t2 in sub]
    out += [["S", t1, t2] for t1 in sub for t2 in sub]
    return out


def shape_str(s):
    if s == "L" or s == "N":
        return s
    if s[0] == "D":
        return "{" + ",".join(f"{k}:{shape_str(t)}" for k, t in s[1:]) + "}"
    return "(" + shape_str(s[1]) + "," + shape_str(s[2]) + ")"


def shape_depth(s):
    if s == "L" or s == "N":
        return 1
    kids = [t for _, t in s[1:]] if s[0] == "D" else [s[1], s[2]]
    return 1 + max([shape_depth(k) for k in kids], default=0)


def children(s):
    """[(step, child)] of an inner shape node."""
    if s == "L" or s == "N":
        return []
    if s[0] == "D":
        return [(["k", k], t) for k, t in s[1:]]
    return [(["f", "u"], s[1]), (["f", "v"], s[2])]


def node_paths(s, prefix=()):
    """All (path, subshape) below the root (root excluded), in traversal order."""
    out = []
    for step, c in children(s):
        p = prefix + (tuple(step),)
        out.append((p, c))
        out += node_paths(c, p)
    return out


def masks(s):
    """Every partial tree of a base shape: any subtree may be omitted (None); a kept leaf is 'L' (supplied)."""
    if s == "N":
        return ["N"]
    if s == "L":
        return ["L", "N"]
    if s[0] == "D":
        kids = [[[k, m] for m in masks(t)] for k, t in s[1:]]
        return ["N"] + [["D"] + list(c) for c in itertools.product(*kids)]
    return ["N"] + [["S", a, b] for a in masks(s[1]) for b in masks(s[2])]


# ------------------------------------------------------------------------------------------------
# reference trees
# ------------------------------------------------------------------------------------------------
class Leaf:
    __slots__ = ("v", "e")

    def __init__(self, v, e=None):
        self.v = np.asarray(v, dtype=np.float64)
        self.e = np.zeros_like(self.v) if e is None else np.broadcast_to(np.asarray(e, dtype=np.float64), self.v.shape).copy()

    def __repr__(self):
        return f"Leaf({self.v.tolist()})"


class RefMismatch(Exception):
    """Two reference trees that must have the same structure do not (only possible for deliberately wrong orders)."""


def leaf_values(kind, i, rot):
    """Value(s) of the i-th leaf.  kind 'vec': all six rotations at once as a (6,1) column; scalars: rotation rot."""
    if kind == "vec":
        return np.array([[VALUES[(r + i) % 6]] for r in range(6)], dtype=np.float64)
    return np.float64(VALUES[(rot + i) % 6])


def bound_values(kind, i, j, prot, narrow=False):
    """(min, max) of leaf i for the j-th Denormalize of a chain.  'vec': all 15 pairs (rotated) as a (15,) row.
    narrow: the pairs of NARROW instead (a (3,) row / rotation prot % 3)."""
    pairs = NARROW if narrow else PAIRS
    n = len(pairs)
    if kind == "vec":
        idx = [(p + (1 if narrow else 4) * i + 7 * j) % n for p in range(n)]
        return np.array([pairs[k][0] for k in idx]), np.array([pairs[k][1] for k in idx])
    k = (prot + (1 if narrow else 4) * i + 7 * j) % n
    return np.float64(pairs[k][0]), np.float64(pairs[k][1])


def fill(shape, leaf_fn):
    """Reference tree of a shape; leaf_fn(i) gives the value of the i-th leaf (traversal = insertion order)."""
    counter = [0]

    def rec(s):
        if s == "N":
            return None
        if s == "L":
            i = counter[0]
            counter[0] += 1
            return Leaf(leaf_fn(i))
        if s[0] == "D":
            return {k: rec(t) for k, t in s[1:]}
        return ("S", rec(s[1]), rec(s[2]))

    return rec(shape)


def tmap(f, *trees):
    """Leaf-wise map over reference trees of identical structure (None stays None)."""
    t0 = trees[0]
    if t0 is None:
        if any(t is not None for t in trees):
            raise RefMismatch("None vs non-None")
        return None
    if isinstance(t0, Leaf):
        if not all(isinstance(t, Leaf) for t in trees):
            raise RefMismatch("leaf vs non-leaf")
        return f(*trees)
    if isinstance(t0, dict):
        if not all(isinstance(t, dict) and list(t.keys()) == list(t0.keys()) for t in trees):
            raise RefMismatch("dict keys")
        return {k: tmap(f, *[t[k] for t in trees]) for k in t0}
    if not all(isinstance(t, tuple) for t in trees):
        raise RefMismatch("struct vs other")
    return ("S", tmap(f, *[t[1] for t in trees]), tmap(f, *[t[2] for t in trees]))


def leaves(t):
    if t is None:
        return []
    if isinstance(t, Leaf):
        return [t]
    if isinstance(t, dict):
        return [x for v in t.values() for x in leaves(v)]
    return leaves(t[1]) + leaves(t[2])


def shape_of(t):
    if t is None:
        return "N"
    if isinstance(t, Leaf):
        return "L"
    if isinstance(t, dict):
        return ["D"] + [[k, shape_of(v)] for k, v in t.items()]
    return ["S", shape_of(t[1]), shape_of(t[2])]


def get_path(t, path):
    for kind, key in path:
        t = t[key] if kind == "k" else t[1 if key == "u" else 2]
    return t


def set_path(t, path, new):
    """Functional update (no sharing of the touched spine)."""
    if not path:
        return new
    (kind, key), rest = path[0], path[1:]
    if kind == "k":
        out = dict(t)
        out[key] = set_path(t[key], rest, new)
        return out
    if key == "u":
        return ("S", set_path(t[1], rest, new), t[2])
    return ("S", t[1], set_path(t[2], rest, new))


# ------------------------------------------------------------------------------------------------
# primitive operations with running error bounds
# ------------------------------------------------------------------------------------------------
def _rnd(v, e_in):
    """Error of one correctly rounded float32 operation with exact-arithmetic result v."""
    with np.errstate(all="ignore"):
        exact = (np.float32(v).astype(np.float64) == v) & (e_in == 0)
        # no allowance for the float64 arithmetic of this model is needed: where every operation is exact in float32
        # it is exact in float64 as well, elsewhere its error is 2^-29 of the bound (covered by the factor 2)
        r = np.where(exact, 0.0, U32 * np.abs(v))
        bad = (np.abs(v) > F32_MAX) | ((np.abs(v) < F32_TINY) & (v != 0)) | ~np.isfinite(v)
        return np.where(bad, np.inf, r)


def _mul(a, s):
    with np.errstate(all="ignore"):
        v = a.v * s
        e = a.e * np.abs(s)
        return Leaf(v, e + _rnd(v, e))


def _add(a, o):
    with np.errstate(all="ignore"):
        v = a.v + o
        return Leaf(v, a.e + _rnd(v, a.e + 0 * v))


def _div(a, s):
    with np.errstate(all="ignore"):
        v = a.v / s
        e = a.e / np.abs(s)
        return Leaf(v, e + _rnd(v, e))


def _exp(a):
    with np.errstate(all="ignore"):
        v = np.exp(a.v)
        e = v * np.expm1(a.e) + K_TRANSC * U32 * v + _rnd(v, np.inf)
        e = np.where(a.e > REL_LIMIT, np.inf, e)
        return Leaf(v, np.where(np.isfinite(e), e, np.inf))


def _log(a):
    with np.errstate(all="ignore"):
        ok = (a.v > 0) & (a.e < REL_LIMIT * np.abs(a.v))  # outside: not in the domain of Exponential.inv / not comparable
        v = np.log(np.where(a.v > 0, a.v, np.nan))
        e = -np.log1p(-np.where(ok, a.e / a.v, 0.0)) + K_TRANSC * U32 * (np.abs(v) + 1.0)
        e = np.where(ok & np.isfinite(v), e, np.inf)
        return Leaf(v, e)


# ------------------------------------------------------------------------------------------------
# reference transforms.  A member is a JSON-able list: ["I"], ["E"], ["D", j] (j-th Denormalize of the chain,
# selects its bounds), ["S", where_path, replace_path], ["X"] (Extend; only in the Extend family).
# ------------------------------------------------------------------------------------------------
class RefDen:
    """scale = (max-min)/2, offset = (min+max)/2; apply x*scale+offset; inv (y-offset)/scale (property text)."""

    def __init__(self, lo, hi):
        self.lo, self.hi = lo, hi  # reference trees (Leaf.v = min / max)
        self.scale = tmap(lambda a, b: Leaf((b.v - a.v) / 2.0), lo, hi)
        self.offset = tmap(lambda a, b: Leaf((a.v + b.v) / 2.0), lo, hi)

    def apply(self, t):
        return tmap(lambda x, s, o: _add(_mul(x, s.v), o.v), t, self.scale, self.offset)

    def inv(self, t):
        return tmap(lambda y, s, o: _div(_add(y, -o.v), s.v), t, self.scale, self.offset)


class RefExp:
    def apply(self, t):
        return tmap(_exp, t)

    def inv(self, t):
        return tmap(_log, t)


class RefId:
    def apply(self, t):
        return t

    def inv(self, t):
        return t


class RefShared:
    """apply: the node at `where` becomes the node found at `replace`; inv (default inverse_fn): it becomes None."""

    def __init__(self, where, replace):
        self.where, self.replace = where, replace

    def apply(self, t):
        return set_path(t, self.where, get_path(t, self.replace))

    def inv(self, t):
        return set_path(t, self.where, None)


class RefExtend:
    """apply: every None of the partial tree is replaced by the base subtree found at the same place."""

    def __init__(self, base):
        self.base = base

    def apply(self, t):
        def rec(b, p):
            if p is None:
                return b
            if isinstance(p, Leaf):
                if not isinstance(b, Leaf):
                    raise RefMismatch("supplied leaf where the base has a subtree")
                return p
            if isinstance(p, dict):
                if not isinstance(b, dict) or list(b.keys()) != list(p.keys()):
                    raise RefMismatch("dict keys")
                return {k: rec(b[k], p[k]) for k in p}
            if not isinstance(b, tuple):
                raise RefMismatch("struct")
            return ("S", rec(b[1], p[1]), rec(b[2], p[2]))

        return rec(self.base, t)


class RefChain:
    """A chain used as a member of another chain: apply first-to-last, inv last-to-first, recursively."""

    def __init__(self, members):
        self.members = members

    def apply(self, t):
        return ref_apply_chain(self.members, t)

    def inv(self, t):
        return ref_inv_chain(self.members, t)


def ref_apply_chain(members, t):
    """t_n(...t_1(t)): first to last."""
    for m in members:
        t = m.apply(t)
    return t


def ref_inv_chain(members, t):
    """t_1^-1(...t_n^-1(t)): last to first."""
    for m in reversed(members):
        t = m.inv(t)
    return t


# ------------------------------------------------------------------------------------------------
# chain alphabet of a shape
# ------------------------------------------------------------------------------------------------
def shared_members(shape, inner_sources):
    """Shared(where, replace): where = any None leaf; replace = any other leaf (value or None) and, if
    inner_sources, any inner node that is not an ancestor of where."""
    nodes = node_paths(shape)
    out = []
    for wp, ws in nodes:
        if ws != "N":
            continue
        for rp, rs in nodes:
            if rp == wp or wp[: len(rp)] == rp:
                continue
            if rs in ("L", "N") or inner_sources:
                out.append(["S", [list(x) for x in wp], [list(x) for x in rp]])
    return out


def chains(shape, maxlen, inner_sources):
    """Every sequence of length <= maxlen over {Identity, Exponential, Denormalize, Shared(...)} of the shape.
    Denormalize members are numbered in order of appearance (each gets its own bounds)."""
    alpha = [["I"], ["E"], ["D"]] + shared_members(shape, inner_sources)
    out = []
    for n in range(maxlen + 1):
        for seq in itertools.product(alpha, repeat=n):
            j = 0
            ch = []
            for m in seq:
                if m[0] == "D":
                    ch.append(["D", j])
                    j += 1
                else:
                    ch.append(m)
            out.append(ch)
    return out


def chain_str(ch):
    def p(path):
        return ".".join(k for _, k in path) or "<root>"

    def one(m):
        if m[0] in "IEX":
            return m[0]
        if m[0] == "D":
            return f"D{m[1]}"
        if m[0] == "C":
            return "Chain" + chain_str(m[1])
        return f"S({p(m[1])}<-{p(m[2])})"

    return "[" + ",".join(one(m) for m in ch) + "]"


def member_letters(ch):
    out = set()
    for m in ch:
        out.add(m[0])
        if m[0] == "C":
            out |= member_letters(m[1])
    return out


def _number_dens(ch, j=0):
    """Number the Denormalize members in flattened order of appearance (nested chains included)."""
    out = []
    for m in ch:
        if m[0] == "D":
            out.append(["D", j])
            j += 1
        elif m[0] == "C":
            inner, j = _number_dens(m[1], j)
            out.append(["C", inner])
        else:
            out.append(m)
    return out, j


def nested_chains(shape, inner_sources):
    """Chains that have a chain as a member (nesting depth 2, and one form of depth 3).  inner = every sequence of
    exactly two members of the shape's alphabet (all ordered pairs, so every non-commuting pair in both orders);
    outer forms, with m in {Identity, Exponential, Denormalize}:
        [Chain(inner)]  [m, Chain(inner)]  [Chain(inner), m]  [Chain([m, Chain(inner)])]"""
    alpha = [["I"], ["E"], ["D"]] + shared_members(shape, inner_sources)
    outer = [["I"], ["E"], ["D"]]
    out = []
    for m1 in alpha:
        for m2 in alpha:
            c = ["C", [m1, m2]]
            forms = [[c]] + [[m, c] for m in outer] + [[c, m] for m in outer] + [[["C", [m, c]]] for m in outer]
            out += [_number_dens(f)[0] for f in forms]
    return out


# ------------------------------------------------------------------------------------------------
# task expansion (a task is a compact description of a sub-family; workers expand it into cases)
# ------------------------------------------------------------------------------------------------
def extend_chains(n_other):
    """Chains with exactly one Extend ["X"] and up to n_other members from {Exponential, Denormalize} around it."""
    out = [[["X"]]]
    for n in range(1, n_other + 1):
        for others in itertools.product([["E"], ["D"]], repeat=n):
            for pos in range(n + 1):
                ch, j = [], 0
                for m in others:
                    if m[0] == "D":
                        ch.append(["D", j])
                        j += 1
                    else:
                        ch.append(m)
                out.append(ch[:pos] + [["X"]] + ch[pos:])
    return out


def has_den(ch):
    return "D" in member_letters(ch)


def expand(task):
    """Task -> list of cases (see vf/c17_real.py for the case format)."""
    g, s, kind = task["gen"], task["shape"], task["kind"]
    rots, prots = task.get("rots", [0]), task.get("prots", [0])
    out = []
    if g in ("chain", "bare"):
        lens = [1] if g == "bare" else task["lens"]
        all_ch = chains(s, max(lens), True)
        sl = task.get("slice")  # (mod, rem): of the length-3 chains keep leaf-to-leaf Shared sources only, every mod-th
        leaf_only = {repr(ch) for ch in chains(s, 3, False)} if sl else None
        i3 = -1
        for ch in all_ch:
            if len(ch) == 3:
                i3 += 1
            if len(ch) not in lens:
                continue
            if sl and len(ch) == 3 and not (repr(ch) in leaf_only and i3 % sl[0] == sl[1]):
                continue
            for r in rots:
                for p in prots if has_den(ch) else prots[:1]:
                    c = dict(fam="chain", shape=s, kind=kind, chain=ch, rot=r, prot=p)
                    if g == "bare":
                        c["bare"] = True
                    out.append(c)
    elif g == "nested":
        sl = task.get("slice")  # (mod, rem): leaf-to-leaf Shared sources only, every mod-th nested chain
        for i, ch in enumerate(nested_chains(s, not sl)):
            if sl and i % sl[0] != sl[1]:
                continue
            for r in rots:
                for p in prots if has_den(ch) else prots[:1]:
                    out.append(dict(fam="chain", shape=s, kind=kind, chain=ch, rot=r, prot=p))
    elif g == "den":
        out = [dict(fam="den", shape=s, kind=kind, prot=p, **({"narrow": True} if task.get("narrow") else {})) for p in prots]
    elif g == "extend":
        for m in masks(s):
            for ch in extend_chains(task["n_other"]):
                out.append(dict(fam="extend", shape=s, mask=m, kind=kind, chain=ch, rot=rots[0], prot=prots[0]))
    else:
        raise ValueError(g)
    return out


def alphabet_size(s):
    return 3 + len(shared_members(s, True))
