"""C18 drivers: run the real rex.cem / rex.evo code on batches of (state, loss-assignment) pairs.

Everything that touches rex/jax lives here; the oracle lives in c18_ref (plain numpy).

How a prescribed loss vector is pushed through the public API
  * `cem_step` / `evo_step` call `loss(params, transform, rng)` for every candidate and hand `transform` through untouched,
    so the harness passes its lookup table as `transform`.
  * probe pass: for a fixed (state, rng) the sampled candidates do not depend on the loss, so D extra calls of the same
    real function with `loss = d-th coordinate of the candidate` return the candidates themselves (they come back in the
    `losses` output).  No rex internals (rng split, gaussian_samples, strategy.ask) are re-implemented.
  * lookup pass: `loss(x) = vec[first i with candidates[i] == x]` (bit-exact match, MARK if absent).  Enumerating vec over
    alphabet^N therefore enumerates every loss function with values in the alphabet, as far as the solver can observe it
    in that iteration (the finest possible "bins": one per distinct evaluated point).
  * full runs (`cem` / `evo`, a scan with one fixed loss function) use a coarse fixed table: 2x2 bins on the first two
    coordinates, MARK_OOB / MARK_NAN for a candidate outside the bounds / with a NaN coordinate.
"""
import numpy as np

from vf import c18_ref as R

D = 3  # parameter tree {"a": (1,), "b": (2,)}, flattened in leaf order a, b
LO = np.array([-1.0, -1.0, -0.5], np.float32)
HI = np.array([1.0, 1.0, 0.5], np.float32)
MEAN0 = np.array([0.5, -0.25, 0.25], np.float32)
NBINS = 4

# samples fed at the narrow seam, one (N,D) script per level (dyadic, inside the bounds)
SEAM_SAMPLES = np.array(
    [
        [[0.5, -0.25, 0.25], [-0.75, 0.5, -0.125], [1.0, -1.0, 0.5], [0.0, 0.25, 0.0]],
        [[0.25, 0.75, -0.5], [-1.0, 0.125, 0.375], [-1.0, 0.125, 0.375], [0.625, -0.5, 0.125]],  # 1 and 2 are the same point
        [[0.5, -0.25, 0.25], [-0.25, -0.75, 0.0], [0.875, 0.375, -0.25], [1.0, 1.0, 0.5]],  # 0 repeats a level-0 point
        [[-0.5, 0.0, 0.5], [0.125, -0.125, -0.375], [0.75, 0.625, 0.125], [-0.875, -1.0, -0.5]],
    ],
    np.float32,
)


def bin_of(x):
    """numpy twin of the coarse table loss: bin index of flat candidates (..., D)."""
    x = np.asarray(x)
    return (x[..., 0] > 0).astype(np.int64) * 2 + (x[..., 1] > 0).astype(np.int64)


MARK_NAN = -22222.0  # table loss: candidate has a NaN coordinate
MARK_OOB = -33333.0  # table loss: candidate outside [LO, HI]


def _jx():
    from vf.common import import_rex

    import_rex()
    import jax
    import jax.numpy as jnp

    return jax, jnp


def _tree(x):
    return {"a": x[..., :1], "b": x[..., 1:]}


def _flat(t):
    _, jnp = _jx()
    return jnp.concatenate([t["a"], t["b"]], axis=-1)


def _lookup_loss(params, tr, rng):
    _, jnp = _jx()
    cands, vec = tr
    x = _flat(params)
    m = jnp.all(cands == x[None, :], axis=-1)
    return jnp.where(jnp.any(m), vec[jnp.argmax(m)], R.MARK)


def _probe_loss(d):
    def f(params, tr, rng):
        return _flat(params)[d]

    return f


def _table_loss(params, table, rng):
    _, jnp = _jx()
    x = _flat(params)
    isn = jnp.any(jnp.isnan(x))
    oob = ~jnp.all((x >= LO) & (x <= HI))  # NaN -> comparison False -> oob
    b = (x[0] > 0).astype(jnp.int32) * 2 + (x[1] > 0).astype(jnp.int32)
    return jnp.where(isn, MARK_NAN, jnp.where(oob, MARK_OOB, table[b]))


def level_rng(base, level):
    jax, _ = _jx()
    return jax.random.PRNGKey(1000 * int(base) + int(level))


def _pad(a, n):
    if a.shape[0] == n:
        return a
    reps = np.repeat(a[:1], n - a.shape[0], axis=0)
    return np.concatenate([a, reps], axis=0)


# ================================================================================================
# CEM
# ================================================================================================
class CemDriver:
    """state leaves: [mean (D), stdev (D), best (D), best_loss ()]"""

    sentinel = np.inf

    def __init__(self, elite_portion, smoothing, n=4, family="step", base=0):
        jax, jnp = _jx()
        from rex.cem import CEMSolver

        self.jax, self.jnp = jax, jnp
        self.n, self.ep, self.s = int(n), float(elite_portion), float(smoothing)
        self.k = int(self.n * self.ep)  # the documented meaning of elite_portion: floor(num_samples * portion) elites
        self.family, self.base = family, int(base)
        solver = CEMSolver.init(u_min=_tree(jnp.asarray(LO)), u_max=_tree(jnp.asarray(HI)), num_samples=self.n, evolution_smoothing=self.s, elite_portion=self.ep)
        st = solver.init_state(mean=_tree(jnp.asarray(MEAN0)))
        self._state0 = [np.asarray(_flat(st.mean)), np.asarray(_flat(st.stdev)), np.asarray(_flat(st.bestsofar)), np.asarray(st.bestsofar_loss, np.float32)]
        self._fn = {}
        self.label = f"ep={self.ep},s={self.s}"

    # -- real-code closures ----------------------------------------------------------------------
    def _solver(self, s):
        from rex.cem import CEMSolver

        jnp = self.jnp
        return CEMSolver.init(u_min=_tree(jnp.asarray(LO)), u_max=_tree(jnp.asarray(HI)), num_samples=self.n, evolution_smoothing=s, elite_portion=self.ep)

    def _state(self, mean, stdev, best, best_loss):
        from rex.cem import CEMState

        return CEMState(mean=_tree(mean), stdev=_tree(stdev), bestsofar=_tree(best), bestsofar_loss=best_loss)

    @staticmethod
    def _leaves(st):
        return _flat(st.mean), _flat(st.stdev), _flat(st.bestsofar), st.bestsofar_loss

    def _get(self, name):
        if name in self._fn:
            return self._fn[name]
        jax, jnp = self.jax, self.jnp
        from rex.cem import cem, cem_step, cem_update_mean_stdev

        if name == "seam":

            def one(s, mean, stdev, best, bl, samples, vec):
                ns = cem_update_mean_stdev(self._solver(s), self._state(mean, stdev, best, bl), _tree(samples), vec)
                return self._leaves(ns) + (vec,)

            f = jax.jit(jax.vmap(jax.vmap(one, (None, None, None, None, None, None, 0)), (None, 0, 0, 0, 0, 0, None)))
        elif name == "probe":

            def one(s, mean, stdev, best, bl, rng):
                st = self._state(mean, stdev, best, bl)
                return jnp.stack([cem_step(_probe_loss(d), self._solver(s), st, None, rng)[1] for d in range(D)], axis=-1)

            f = jax.jit(jax.vmap(one, (None, 0, 0, 0, 0, None)))
        elif name == "step":

            def one(s, mean, stdev, best, bl, rng, cands, vec):
                ns, losses = cem_step(_lookup_loss, self._solver(s), self._state(mean, stdev, best, bl), (cands, vec), rng)
                return self._leaves(ns) + (losses,)

            f = jax.jit(jax.vmap(jax.vmap(one, (None, None, None, None, None, None, None, 0)), (None, 0, 0, 0, 0, None, 0, None)))
        elif name.startswith("run"):
            T = int(name[3:])

            def one(s, mean, stdev, best, bl, rng, table):
                fs, losses = cem(_table_loss, self._solver(s), self._state(mean, stdev, best, bl), table, max_steps=T, rng=rng, verbose=False)
                return self._leaves(fs) + (losses,)

            f = jax.jit(jax.vmap(jax.vmap(one, (None, None, None, None, None, None, 0)), (None, None, None, None, None, 0, None)))
        self._fn[name] = f
        return f

    # -- adapter used by the BFS engine -----------------------------------------------------------
    def state0(self):
        return [np.array(x) for x in self._state0]

    def observe(self, leaves):
        return dict(mean=leaves[0], stdev=leaves[1], best=leaves[2], best_loss=leaves[3])

    def cands(self, leaves, level):
        S = leaves[0].shape[0]
        if self.family == "seam":
            return np.broadcast_to(SEAM_SAMPLES[level % len(SEAM_SAMPLES)][None, : self.n], (S, self.n, D)).copy()
        return np.asarray(self._get("probe")(self.s, *leaves, level_rng(self.base, level)))

    def step(self, leaves, level, cands, vecs):
        if self.family == "seam":
            out = self._get("seam")(self.s, *leaves, cands, vecs)
        else:
            out = self._get("step")(self.s, *leaves, level_rng(self.base, level), cands, vecs)
        out = [np.asarray(o) for o in out]
        return out[:4], out[4]

    def run(self, T, rngs, tables):
        out = self._get(f"run{T}")(self.s, *[self.jnp.asarray(x) for x in self._state0], rngs, tables)
        out = [np.asarray(o) for o in out]
        return self.observe(out[:4]), out[4]

    check_bounds = property(lambda self: self.family != "seam")

    def fast_judge(self, leaves, cands, losses, new_leaves):
        """-> best_ok (S,V) exact ; law_ok (S,V) sufficient, not necessary ; strict (S,V) literal-reading flag"""
        o, n = self.observe(leaves), self.observe(new_leaves)
        best_ok = R.fast_best(o["best"], o["best_loss"], self.sentinel, cands, losses, n["best"], n["best_loss"])
        law_ok, strict = R.fast_cem_law(self.k, self.s, o["mean"], o["stdev"], o["best"], o["best_loss"], cands, losses, n["mean"], n["stdev"])
        return best_ok, law_ok, strict

    def slow_judge(self, leaves_i, cands_i, losses_iv, new_leaves_iv):
        o, n = self.observe(leaves_i), self.observe(new_leaves_iv)
        v = R.judge_best(o["best"], o["best_loss"], self.sentinel, cands_i, losses_iv, n["best"], n["best_loss"])
        e, strict = R.judge_cem_elite(self.k, self.s, o["mean"], o["stdev"], cands_i, losses_iv, n["mean"], n["stdev"])
        return v + e, strict


# ================================================================================================
# Evo
# ================================================================================================
EVO_CONFIGS = {
    # label: (strategy, popsize, strategy_kwargs, fitness_kwargs)      sigma large w.r.t. the box so that clipping is active
    "CMA_ES": ("CMA_ES", 4, dict(elite_ratio=0.5, sigma_init=0.6), {}),
    "SimpleGA": ("SimpleGA", 4, dict(elite_ratio=0.5, sigma_init=0.6), {}),
    "OpenES": ("OpenES", 4, dict(sigma_init=0.5), {}),
    "OpenES+centered_rank": ("OpenES", 4, dict(sigma_init=0.5), dict(centered_rank=True)),
    "CMA_ES.pop6": ("CMA_ES", 6, dict(elite_ratio=0.34, sigma_init=0.6), {}),
    "SimpleGA.pop5": ("SimpleGA", 5, dict(elite_ratio=0.4, sigma_init=0.6), {}),
    "OpenES+centered_rank.pop6": ("OpenES", 6, dict(sigma_init=0.5), dict(centered_rank=True)),
    "PGPE": ("PGPE", 4, dict(sigma_init=0.5), {}),
}


class EvoDriver:
    """state leaves: the flattened evosax EvoState of the strategy; observables are read through the public fields
    best_member / best_fitness (+ EvoSolver.unflatten)."""

    family = "step"
    check_bounds = True

    def __init__(self, label, base=0):
        jax, jnp = _jx()
        import contextlib
        import io

        from rex.evo import EvoSolver

        self.jax, self.jnp = jax, jnp
        self.label, self.base = label, int(base)
        name, pop, skw, fkw = EVO_CONFIGS[label]
        self.n = pop
        with contextlib.redirect_stdout(io.StringIO()):  # evosax prints "ParameterReshaper: ..." on construction
            self.solver = EvoSolver.init(_tree(jnp.asarray(LO)), _tree(jnp.asarray(HI)), name, dict(popsize=pop, **skw), dict(fkw))
        st = self.solver.init_state(_tree(jnp.asarray(MEAN0)), rng=jax.random.PRNGKey(7))
        leaves, self.treedef = jax.tree_util.tree_flatten(st)
        self._state0 = [np.asarray(x) for x in leaves]
        self.sentinel = float(np.asarray(st.best_fitness))
        self._fn = {}

    def _obs(self, st):
        return _flat(self.solver.unflatten(st.best_member)), st.best_fitness

    def _get(self, name):
        if name in self._fn:
            return self._fn[name]
        jax, jnp = self.jax, self.jnp
        from rex.evo import evo, evo_step

        td = self.treedef
        if name == "probe":

            def one(leaves, rng):
                st = td.unflatten(leaves)
                return jnp.stack([evo_step(_probe_loss(d), self.solver, st, None, rng)[1] for d in range(D)], axis=-1)

            f = jax.jit(jax.vmap(one, (0, None)))
        elif name == "step":

            def one(leaves, rng, cands, vec):
                (ns, _), losses = evo_step(_lookup_loss, self.solver, td.unflatten(leaves), (cands, vec), rng)
                return tuple(jax.tree_util.tree_leaves(ns)), self._obs(ns), losses

            f = jax.jit(jax.vmap(jax.vmap(one, (None, None, None, 0)), (0, None, 0, None)))
        elif name == "observe":
            f = jax.jit(jax.vmap(lambda leaves: self._obs(td.unflatten(leaves))))
        elif name.startswith("run"):
            T = int(name[3:])

            def one(leaves, rng, table):
                fs, _, losses = evo(_table_loss, self.solver, td.unflatten(leaves), table, max_steps=T, rng=rng, verbose=False, logger=None)
                return self._obs(fs), losses

            f = jax.jit(jax.vmap(jax.vmap(one, (None, None, 0)), (None, 0, None)))
        self._fn[name] = f
        return f

    def state0(self):
        return [np.array(x) for x in self._state0]

    def observe(self, leaves):
        b, bl = self._get("observe")(list(leaves))
        return dict(best=np.asarray(b), best_loss=np.asarray(bl))

    def cands(self, leaves, level):
        return np.asarray(self._get("probe")(list(leaves), level_rng(self.base, level)))

    def step(self, leaves, level, cands, vecs):
        nl, (b, bl), losses = self._get("step")(list(leaves), level_rng(self.base, level), cands, vecs)
        self._last_obs = dict(best=np.asarray(b), best_loss=np.asarray(bl))
        return [np.asarray(x) for x in nl], np.asarray(losses)

    def run(self, T, rngs, tables):
        (b, bl), losses = self._get(f"run{T}")([self.jnp.asarray(x) for x in self._state0], rngs, tables)
        return dict(best=np.asarray(b), best_loss=np.asarray(bl)), np.asarray(losses)

    def fast_judge(self, leaves, cands, losses, new_leaves):
        o, n = self.observe(leaves), self._last_obs
        best_ok = R.fast_best(o["best"], o["best_loss"], self.sentinel, cands, losses, n["best"], n["best_loss"])
        return best_ok, np.ones_like(best_ok), np.zeros_like(best_ok)

    def slow_judge_obs(self, old_obs_i, cands_i, losses_iv, new_obs_iv):
        return R.judge_best(old_obs_i["best"], old_obs_i["best_loss"], self.sentinel, cands_i, losses_iv, new_obs_iv["best"], new_obs_iv["best_loss"]), []


# ================================================================================================
# breadth-first engine over loss histories
# ================================================================================================
def _rows_key(leaves):
    """(M, ...) leaves -> (M,) void view of the row bytes (bitwise state identity)."""
    M = leaves[0].shape[0]
    cols = [np.ascontiguousarray(l).reshape(M, -1).view(np.uint8).reshape(M, -1) for l in leaves]
    b = np.ascontiguousarray(np.concatenate(cols, axis=1))
    return b.view(np.dtype((np.void, b.shape[1]))).reshape(M)


def _dedup(leaves):
    key = _rows_key(leaves)
    _, first = np.unique(key, return_index=True)
    first.sort()
    return first


def bfs(drv, depth, vecs, chunk=64, max_report=3, slow_cap=300, final_probe=True, rename=None):
    """Breadth-first over loss histories of length `depth`; every (state, loss vector) pair of every level is run on the
    real code and judged; successor states are de-duplicated bitwise per level.

    returns dict(levels=[...], violations=[(class, detail, history)], strict=[...], counts)
    """
    V = vecs.shape[0]
    frontier = [x[None] for x in drv.state0()]
    back = []  # per level: (parent index, vec index) of each frontier state of the next level
    res = dict(levels=[], violations=[], strict=[], n_viol={}, n_strict=0, states=1, transitions=0, traces=0, pruned=0, samples=[])
    is_cem = isinstance(drv, CemDriver)

    def history(level, idx, v=None):
        h = [] if v is None else [int(v)]
        for t in range(level - 1, -1, -1):
            p, vv = back[t]
            h.append(int(vv[idx]))
            idx = int(p[idx])
        return h[::-1]

    def note(cls, detail, hist, strict=False):
        if rename is not None:
            cls = rename(cls, hist)
        if strict:
            res["n_strict"] += 1
            if len(res["strict"]) < max_report:
                res["strict"].append((cls, detail, hist))
            return
        res["n_viol"][cls] = res["n_viol"].get(cls, 0) + 1
        if sum(1 for c, _, _ in res["violations"] if c == cls) < max_report:
            res["violations"].append((cls, detail, hist))

    def probe_level(level, frontier):
        """candidates of every frontier state + bounds verdict; returns (cands (S,N,D), alive (S,))"""
        S = frontier[0].shape[0]
        out = []
        for c0 in range(0, S, chunk):
            m = min(chunk, S - c0)
            lb = [_pad(l[c0 : c0 + m], chunk) for l in frontier]
            out.append(drv.cands(lb, level)[:m])
        cands = np.concatenate(out, axis=0)
        alive = np.ones(S, bool)
        if drv.check_bounds:
            c64 = cands.astype(np.float64)
            inb = np.all((c64 >= LO) & (c64 <= HI), axis=(1, 2))
            alive = inb
            for i in np.flatnonzero(~inb):
                for cls, det in R.judge_bounds(cands[i], LO, HI):
                    note(cls, det, history(level, int(i)))
            res["traces"] += S  # one probed ask/sample per state
        return cands, alive

    for level in range(depth):
        S = frontier[0].shape[0]
        cands_all, alive = probe_level(level, frontier)
        res["pruned"] += int((~alive).sum())
        new_rows, par, vix = [], [], []
        n_slow = 0
        eff_distinct = 0
        for c0 in range(0, S, chunk):
            m = min(chunk, S - c0)
            if not alive[c0 : c0 + m].any():
                continue
            lb = [_pad(l[c0 : c0 + m], chunk) for l in frontier]
            cb = _pad(cands_all[c0 : c0 + m], chunk)
            new_leaves, losses = drv.step(lb, level, cb, vecs)
            if drv.family != "seam" and (losses[:m][alive[c0 : c0 + m]] == R.MARK).any():
                from vf.common import HarnessError

                raise HarnessError("C18: lookup loss met a candidate that the probe pass did not see (cem_step/evo_step not deterministic?)")
            best_ok, law_ok, strict = drv.fast_judge(lb, cb, losses, new_leaves)
            dup = R.has_duplicates(cb)
            obs_old = drv.observe(lb) if not is_cem else None
            for i in range(m):
                if not alive[c0 + i]:
                    continue
                res["transitions"] += V
                res["traces"] += V
                bad = ~(best_ok[i] & law_ok[i])
                todo = list(np.flatnonzero(bad))
                if is_cem and dup[i]:
                    todo += [v for v in np.flatnonzero(strict[i]) if not bad[v]]
                else:
                    for v in np.flatnonzero(strict[i] & ~bad):
                        note("nan-elite-fill", dict(losses=losses[i, v].tolist(), candidates=cb[i].tolist(), k=getattr(drv, "k", None)), history(level, c0 + i, v), strict=True)
                for v in todo:
                    confirmed = sum(res["n_viol"].values())
                    if confirmed and n_slow >= slow_cap:
                        # beyond the cap only the exact part of the verdict is counted (the tie-tolerant elite search is skipped)
                        if not best_ok[i, v]:
                            k_ = "best-so-far clause (counted only, beyond the slow-judge cap)"
                            res["n_viol"][k_] = res["n_viol"].get(k_, 0) + 1
                        else:
                            res["unclassified"] = res.get("unclassified", 0) + 1
                        continue
                    n_slow += 1
                    li = [l[i] for l in lb]
                    if is_cem:
                        viol, st = drv.slow_judge(li, cb[i], losses[i, v], [nl[i, v] for nl in new_leaves])
                    else:
                        oo = {k: a[i] for k, a in obs_old.items()}
                        no = {k: a[i, v] for k, a in drv._last_obs.items()}
                        viol, st = drv.slow_judge_obs(oo, cb[i], losses[i, v], no)
                    for cls, det in viol:
                        note(cls, det, history(level, c0 + i, v))
                    for cls, det in st:
                        note(cls, det, history(level, c0 + i, v), strict=True)
            keep = np.flatnonzero(alive[c0 : c0 + m])
            eff_distinct += sum(len(np.unique(_rows_key([losses[i]]))) for i in keep)
            rows = [x[keep].reshape((len(keep) * V,) + x.shape[2:]) for x in new_leaves]
            f = _dedup(rows)  # de-duplicate inside the chunk right away to bound memory
            new_rows.append([r[f] for r in rows])
            par.append((np.repeat(keep + c0, V))[f])
            vix.append(np.tile(np.arange(V), len(keep))[f])
            if len(res["samples"]) < 2 and m:
                i = int(keep[0]) if len(keep) else 0
                v = V // 3
                res["samples"].append(dict(config=drv.label, family=drv.family, level=level, candidates=cb[i].tolist(), losses=losses[i, v].tolist(),
                                           best_after=(drv.observe([nl[i : i + 1, v] for nl in new_leaves]) if is_cem else {k: a[i : i + 1, v] for k, a in drv._last_obs.items()})["best"][0].tolist()))
        if not new_rows:
            res["levels"].append(dict(level=level, states=S, alive=int(alive.sum()), successors=0, distinct_loss_vectors=eff_distinct))
            frontier = None
            break
        rows = [np.concatenate([r[j] for r in new_rows], axis=0) for j in range(len(new_rows[0]))]
        par, vix = np.concatenate(par), np.concatenate(vix)
        f = _dedup(rows)
        frontier = [r[f] for r in rows]
        back.append((par[f], vix[f]))
        res["levels"].append(dict(level=level, states=S, alive=int(alive.sum()), transitions=int(alive.sum()) * V, distinct_loss_vectors=eff_distinct, successors=len(f)))
        res["states"] += len(f)
    if frontier is not None and final_probe and drv.check_bounds:
        # candidates the solver would evaluate next from every reachable state of the last level
        _, alive = probe_level(depth, frontier)
        res["levels"].append(dict(level=depth, states=frontier[0].shape[0], alive=int(alive.sum()), note="ask/sample only (bounds)"))
    return res


def replay_history(drv, hist, vecs):
    """Re-run one loss history step by step (tie-tolerant slow judge at every step). -> list of (class, detail, strict?)"""
    out = []
    leaves = [x[None] for x in drv.state0()]
    is_cem = isinstance(drv, CemDriver)
    for level in range(len(hist) + 1):
        cands = drv.cands(leaves, level)
        if drv.check_bounds:
            for cls, det in R.judge_bounds(cands[0], LO, HI):
                out.append((cls, det, False))
            if any(not s for *_, s in out):
                return out
        if level == len(hist):
            break
        vec = vecs[hist[level]][None]
        new_leaves, losses = drv.step(leaves, level, cands, vec)
        li = [l[0] for l in leaves]
        if is_cem:
            viol, st = drv.slow_judge(li, cands[0], losses[0, 0], [nl[0, 0] for nl in new_leaves])
        else:
            oo = {k: a[0] for k, a in drv.observe(leaves).items()}
            no = {k: a[0, 0] for k, a in drv._last_obs.items()}
            viol, st = drv.slow_judge_obs(oo, cands[0], losses[0, 0], no)
        out += [(c, d, False) for c, d in viol] + [(c, d, True) for c, d in st]
        leaves = [nl[:, 0] for nl in new_leaves]
    return out


# ================================================================================================
# full runs: cem(...) / evo(...) with one fixed table loss, black-box oracle
# ================================================================================================
def judge_run(obs, losses, tables, sentinel):
    """Black-box oracle for cem()/evo(): obs best (R,V,D), best_loss (R,V); losses (R,V,T,N); tables (V,B).
    -> list of (class, detail, (r, v)).  The table loss is a deterministic function of the candidate, so
    "the best candidate attained the best loss" is checked by evaluating the reference's own copy of the table on it."""
    out = []
    Rn, V = obs["best_loss"].shape
    l64 = losses.astype(np.float64).reshape(Rn, V, -1)
    m_nan = (l64 == MARK_NAN).any(axis=-1)
    m_oob = (l64 == MARK_OOB).any(axis=-1)
    marked = m_nan | m_oob
    mf = R.min_finite(l64)
    bl = obs["best_loss"].astype(np.float64)
    claim = np.isfinite(mf)
    loss_ok = np.where(claim, bl == mf, (bl == float(sentinel)) | (bl == np.inf))
    best = obs["best"].astype(np.float64)
    inb = np.all((best >= LO) & (best <= HI), axis=-1)
    tb = np.broadcast_to(tables[None].astype(np.float64), (Rn, V, tables.shape[1]))
    own = np.take_along_axis(tb, bin_of(best)[..., None], axis=-1)[..., 0]
    attains = ~claim | (inb & (own == bl))
    for r, v in np.argwhere(marked):
        cls = "candidate-nan" if m_nan[r, v] else "candidate-out-of-bounds"
        out.append((cls, dict(losses=losses[r, v].tolist(), table=tables[v].tolist()), (int(r), int(v))))
    for r, v in np.argwhere(~marked & ~loss_ok):
        out.append(("best-loss-not-min-finite", dict(best_loss=float(bl[r, v]), expected=float(mf[r, v]), losses=losses[r, v].tolist(), table=tables[v].tolist()), (int(r), int(v))))
    for r, v in np.argwhere(~marked & loss_ok & ~attains):
        out.append(("best-candidate-not-attaining", dict(best=best[r, v].tolist(), loss_of_best=float(own[r, v]), best_loss=float(bl[r, v]), table=tables[v].tolist()), (int(r), int(v))))
    return out


# ================================================================================================
# Pool tasks (spawned workers import this module; one jit cache per task)
# ================================================================================================
def make_driver(spec):
    if spec["solver"] == "cem":
        return CemDriver(spec["ep"], spec["s"], n=spec.get("n", 4), family=spec.get("family", "step"), base=spec.get("base", 0))
    return EvoDriver(spec["label"], base=spec.get("base", 0))


def vec_set(spec, n):
    return R.loss_vectors(n, tuple(spec.get("alphabet") or R.ALPHABET))


def run_rngs(seeds):
    jax, jnp = _jx()
    return jnp.stack([jax.random.PRNGKey(5000 + int(k)) for k in seeds])


def task(spec):
    import time

    t0, c0 = time.time(), time.process_time()
    drv = make_driver(spec)
    if spec["kind"] == "bfs":
        vecs = vec_set(spec, drv.n)
        rename = None
        if spec["solver"] == "evo":
            # NaN candidates asked after a non-finite loss was told to the strategy: one stable class of its own
            def rename(cls, hist):
                return "nan-poisons-mean" if cls == "candidate-nan" and any(not np.isfinite(vecs[v]).all() for v in hist) else cls

        res = bfs(drv, spec["depth"], vecs, chunk=spec.get("chunk", 64), rename=rename)
        out = dict(spec=spec, levels=res["levels"], n_viol=res["n_viol"], n_strict=res["n_strict"], states=res["states"], transitions=res["transitions"], traces=res["traces"],
                   pruned=res["pruned"], unclassified=res.get("unclassified", 0), samples=res["samples"], n_vecs=len(vecs),
                   violations=[(c, d, dict(spec=spec, history=h)) for c, d, h in res["violations"]],
                   strict=[(c, d, dict(spec=spec, history=h)) for c, d, h in res["strict"]])
    else:
        tables = R.loss_vectors(NBINS, tuple(spec.get("alphabet") or R.ALPHABET))
        obs, losses = drv.run(spec["T"], run_rngs(spec["seeds"]), tables)
        viol = judge_run(obs, losses, tables, drv.sentinel)
        if spec["solver"] == "evo":
            # NaN candidates that appear after a non-finite loss was told to the strategy: one stable class of its own
            def ren(c, d):
                L = np.asarray(d.get("losses", [[]]), np.float64)
                first_nan = [t for t in range(len(L)) if (L[t] == MARK_NAN).any()]
                return "nan-poisons-mean" if c == "candidate-nan" and first_nan and not np.isfinite(L[: first_nan[0]]).all() else c

            viol = [(ren(c, d), d, rv) for c, d, rv in viol]
        n_viol = {}
        keep = []
        for c, d, (r, v) in viol:
            n_viol[c] = n_viol.get(c, 0) + 1
            if n_viol[c] <= 3:
                keep.append((c, d, dict(spec=dict(spec, seeds=[spec["seeds"][r]]), table=int(v))))
        Rn, V = obs["best_loss"].shape
        l64 = losses.astype(np.float64)
        out = dict(spec=spec, levels=[], n_viol=n_viol, n_strict=0, states=Rn * V, transitions=Rn * V * spec["T"], traces=Rn * V, pruned=0, unclassified=0, n_vecs=V,
                   distinct_loss_matrices=int(len(np.unique(_rows_key([losses.reshape(Rn * V, -1)])))), runs_with_nan_loss=int(np.isnan(l64).any(axis=(2, 3)).sum()),
                   clipped_candidates="n/a (candidates are not observable through cem()/evo(); bounds are checked by the loss function itself)",
                   samples=[dict(config=drv.label, family="run", table=tables[V // 3].tolist(), losses=losses[0, V // 3].tolist(), best=obs["best"][0, V // 3].tolist(), best_loss=float(obs["best_loss"][0, V // 3]))],
                   violations=keep, strict=[])
    out["wall"] = round(time.time() - t0, 1)
    out["cpu"] = round(time.process_time() - c0, 1)
    return out


def replay(rp):
    """rp = the dict stored with a violation. -> list of (class, detail, strict?) found when re-running exactly that case."""
    spec = rp["spec"]
    drv = make_driver(spec)
    if spec["kind"] == "bfs":
        return replay_history(drv, rp["history"], vec_set(spec, drv.n))
    tables = R.loss_vectors(NBINS, tuple(spec.get("alphabet") or R.ALPHABET))
    tb = tables[rp["table"] : rp["table"] + 1]
    obs, losses = drv.run(spec["T"], run_rngs(spec["seeds"][:1]), tb)
    return [(c, d, False) for c, d, _ in judge_run(obs, losses, tb, drv.sentinel)]
