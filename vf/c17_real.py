"""C17 implementation side: build real pytrees, run the real rex transforms, compare with vf.c17_ref.

A *case* is a JSON-able dict (it is also the replay payload):
  fam="chain":  shape, kind, rot, prot, chain, bare     Chain.init(*members) (or the bare member when bare)
  fam="den":    shape, kind, prot                        Denormalize on the 5-point grid: end points exact, monotone
  fam="extend": shape (base), mask, kind, rot, prot, chain (with exactly one ["X"])   apply only; inv observed
"""
import numpy as np

from vf import c17_ref as R
from vf.common import HarnessError, import_rex

_ctx = {}
_arrays = {}


def ctx():
    """Lazy imports (rex must be imported after import_rex)."""
    if not _ctx:
        import_rex()
        import jax.numpy as jnp
        from flax import struct

        import rex.base as base

        @struct.dataclass
        class P:
            u: object
            v: object

        _ctx.update(jnp=jnp, base=base, P=P)
    return _ctx


# ------------------------------------------------------------------------------------------------
# reference tree -> real pytree
# ------------------------------------------------------------------------------------------------
def build(t, kind):
    c = ctx()
    if t is None:
        return None
    if isinstance(t, R.Leaf):
        if kind == "py":
            return float(t.v)
        a = np.asarray(t.v, dtype=np.float32)
        key = (a.shape, a.tobytes())
        arr = _arrays.get(key)  # jax arrays are immutable: the few hundred distinct leaves are transferred once per worker
        if arr is None:
            arr = _arrays[key] = c["jnp"].asarray(a)
        return arr
    if isinstance(t, dict):
        return {k: build(v, kind) for k, v in t.items()}
    return c["P"](u=build(t[1], kind), v=build(t[2], kind))


def mk_getter(path):
    path = [tuple(p) for p in path]

    def get(tree):
        for kind, key in path:
            tree = tree[key] if kind == "k" else getattr(tree, key)
        return tree

    return get


# ------------------------------------------------------------------------------------------------
# comparison real pytree <-> reference tree (hand-written walk, no jax tree utilities)
# ------------------------------------------------------------------------------------------------
class Cmp:
    def __init__(self):
        self.bad = []  # strings
        self.compared = 0  # elements compared
        self.skipped = 0  # elements outside float32 range / domain (not demanded)

    def walk(self, real, ref, where="", exact_type_of=None):
        c = ctx()
        if ref is None:
            if real is not None:
                self.bad.append(f"{where or '<root>'}: expected None, got {_short(real)}")
            return
        if isinstance(ref, dict):
            if not isinstance(real, dict) or set(real.keys()) != set(ref.keys()):
                self.bad.append(f"{where or '<root>'}: expected dict with keys {sorted(ref)}, got {_short(real)}")
                return
            for k in ref:
                self.walk(real[k], ref[k], f"{where}.{k}")
            return
        if isinstance(ref, tuple):
            if not isinstance(real, c["P"]):
                self.bad.append(f"{where or '<root>'}: expected dataclass P, got {_short(real)}")
                return
            self.walk(real.u, ref[1], f"{where}.u")
            self.walk(real.v, ref[2], f"{where}.v")
            return
        # leaf
        if real is None or isinstance(real, (dict, c["P"])):
            self.bad.append(f"{where or '<root>'}: expected a leaf value, got {_short(real)}")
            return
        try:
            r = np.asarray(real, dtype=np.float64)
        except Exception as e:  # noqa
            self.bad.append(f"{where or '<root>'}: leaf not numeric: {_short(real)} ({e})")
            return
        if r.shape != ref.v.shape:
            self.bad.append(f"{where or '<root>'}: leaf shape {r.shape}, expected {ref.v.shape}")
            return
        with np.errstate(all="ignore"):
            demanded = np.isfinite(ref.e) & (ref.e <= R.REL_LIMIT * (np.abs(ref.v) + 1.0))
            tol = 2.0 * ref.e
            ok = np.abs(r - ref.v) <= tol
        wrong = demanded & ~ok
        self.compared += int(demanded.sum())
        self.skipped += int((~demanded).sum())
        if wrong.any():
            i = tuple(int(x) for x in np.argwhere(wrong)[0])
            self.bad.append(
                f"{where or '<root>'}: got {r[i]!r}, expected {ref.v[i]!r} (tolerance {tol[i]:.3g}, element {i}, {int(wrong.sum())} element(s) off)"
            )


def _short(x):
    s = repr(x)
    return s if len(s) < 120 else s[:117] + "..."


def _exc(e):
    return f"{type(e).__name__}: {str(e).splitlines()[0][:200] if str(e) else ''}"


# ------------------------------------------------------------------------------------------------
# members
# ------------------------------------------------------------------------------------------------
def make_members(chain, x_ref, kind, prot, base_ref=None):
    """Walk the chain forward on the reference tree; returns (ref_members, specs, occupied) where specs hold what the
    real constructors need (bounds as reference trees).  None if a Denormalize meets a tree without any leaf.
    A member ["C", members] is a nested chain: its members are walked in place (bounds see the tree of their stage)."""
    state = dict(cur=x_ref, occupied=False)  # occupied: some Shared writes into a slot that holds a value at that stage

    def walk(ch):
        refs, specs = [], []
        for m in ch:
            cur = state["cur"]
            if m[0] == "C":
                sub = walk(m[1])
                if sub is None:
                    return None
                refs.append(R.RefChain(sub[0]))
                specs.append(("C", sub[1]))
                continue  # state["cur"] already advanced by the inner walk
            if m[0] == "I":
                rm, sp = R.RefId(), ("I",)
            elif m[0] == "E":
                rm, sp = R.RefExp(), ("E",)
            elif m[0] == "D":
                if not R.leaves(cur):
                    return None
                j = m[1]
                sh = R.shape_of(cur)
                lo = R.fill(sh, lambda i: R.bound_values(kind, i, j, prot)[0])
                hi = R.fill(sh, lambda i: R.bound_values(kind, i, j, prot)[1])
                rm, sp = R.RefDen(lo, hi), ("D", lo, hi)
            elif m[0] == "S":
                w, r = [tuple(p) for p in m[1]], [tuple(p) for p in m[2]]
                rm, sp = R.RefShared(w, r), ("S", w, r)
                state["occupied"] = state["occupied"] or R.get_path(cur, w) is not None
            elif m[0] == "X":
                rm, sp = R.RefExtend(base_ref), ("X",)
            else:
                raise HarnessError(f"unknown member {m}")
            refs.append(rm)
            specs.append(sp)
            state["cur"] = rm.apply(cur)
        return refs, specs

    res = walk(chain)
    if res is None:
        return None
    return res[0], res[1], state["occupied"]


def n_members(chain):
    return sum(n_members(m[1]) if m[0] == "C" else 1 for m in chain)


class _WrongOrderChain(R.RefChain):
    """Statistic only: a nested chain that inverts its members first-to-last (what the check must be able to notice)."""

    def inv(self, t):
        for m in self.members:
            t = m.inv(t)
        return t


def _wrong_nested(refs):
    return [_WrongOrderChain(_wrong_nested(m.members)) if isinstance(m, R.RefChain) else m for m in refs]


def real_member(sp, kind, extend_args=None):
    b = ctx()["base"]
    if sp[0] == "I":
        return b.Identity.init()
    if sp[0] == "E":
        return b.Exponential.init()
    if sp[0] == "D":
        return b.Denormalize.init(build(sp[1], kind), build(sp[2], kind))
    if sp[0] == "S":
        return b.Shared.init(where=mk_getter(sp[1]), replace_fn=mk_getter(sp[2]))
    if sp[0] == "X":
        return b.Extend.init(*extend_args)
    if sp[0] == "C":
        return b.Chain.init(*[real_member(x, kind, extend_args) for x in sp[1]])
    raise HarnessError(f"unknown member spec {sp[0]}")


def _target(x_ref, z_ref):
    """inv(apply(x)) must be x: value target x (broadcast), tolerance from the running bound of the round trip."""

    def f(x, z):
        v = np.broadcast_to(x.v, z.v.shape)
        with np.errstate(all="ignore"):
            slack = np.abs(z.v - v)
        if np.any(np.isfinite(z.e) & (slack > 1e-9 * (np.abs(v) + 1.0) + z.e)):
            raise HarnessError("reference model: inverse of forward does not return the input")
        return R.Leaf(v, z.e)

    try:
        return R.tmap(f, x_ref, z_ref)
    except R.RefMismatch as e:
        raise HarnessError(f"reference model: round trip changes the structure ({e})")


def _differs(a, b):
    """Do two reference trees differ beyond their error bounds (used for the order-sensitivity statistic)."""
    if R.shape_of(a) != R.shape_of(b):
        return True
    for la, lb in zip(R.leaves(a), R.leaves(b)):
        if la.v.shape != lb.v.shape:
            return True
        with np.errstate(all="ignore"):
            fin = np.isfinite(la.e) & np.isfinite(lb.e)
            if np.any(fin & (np.abs(la.v - lb.v) > 2 * (la.e + lb.e) + 1e-6)):
                return True
    return False


# ------------------------------------------------------------------------------------------------
# case runners.  Each returns dict(viol=[(signature, what)], obs={...}, n=dict(counts))
# ------------------------------------------------------------------------------------------------
def _new():
    return dict(viol=[], obs={}, n=dict(cases=0, elements=0, skipped_elements=0, real_calls=0, member_ops=0, order_sensitive=0, den_on_leafless=0, shared_slot_occupied=0, nested=0, nested_inner_inv_order_sensitive=0))


def run_chain(case):
    out = _new()
    n = out["n"]
    shape, kind, chain = case["shape"], case["kind"], case["chain"]
    rot, prot = case.get("rot", 0), case.get("prot", 0)
    b = ctx()["base"]
    x_ref = R.fill(shape, lambda i: R.leaf_values(kind, i, rot))
    mm = make_members(chain, x_ref, kind, prot)
    if mm is None:
        n["den_on_leafless"] += 1
        return out
    refs, specs, occupied = mm
    tag = f"{R.chain_str(chain)}"
    sig_members = "".join(sorted(R.member_letters(chain))) or "empty"  # coarse, stable case class: which member kinds occur
    ctxs = f"shape={R.shape_str(shape)} kind={kind} chain={tag}"

    def viol(kind_, msgs):
        out["viol"].append((f"{'bare' if case.get('bare') else 'chain'}:{kind_}:{sig_members}", f"{ctxs}: {kind_}: " + "; ".join(msgs[:3])))

    n["cases"] += 1
    try:
        members = [real_member(sp, kind) for sp in specs]
        T = members[0] if case.get("bare") else b.Chain.init(*members)
    except Exception as e:  # noqa
        viol("init-raises", [_exc(e)])
        return out
    x = build(x_ref, kind)
    y_ref = R.ref_apply_chain(refs, x_ref)
    # (1) apply = t_n o ... o t_1
    try:
        y = T.apply(x)
    except Exception as e:  # noqa
        viol("apply-raises", [_exc(e)])
        return out
    n["real_calls"] += 1
    n["member_ops"] += n_members(chain)
    c = Cmp()
    c.walk(y, y_ref)
    if c.bad:
        viol("apply", c.bad)
    n["elements"] += c.compared
    n["skipped_elements"] += c.skipped
    # statistic: would the opposite order have been noticed?
    if len(chain) >= 2:
        try:
            sens = _differs(R.ref_apply_chain(refs[::-1], x_ref), y_ref)
        except (R.RefMismatch, KeyError, TypeError, IndexError):
            sens = True
        n["order_sensitive"] += int(sens)
    if occupied:
        # outside the domain of the round trip (a Shared whose slot already holds a value is not injective): only apply is demanded
        n["shared_slot_occupied"] += 1
        return out
    # (2) inv(apply(x)) = x
    z_ref = R.ref_inv_chain(refs, y_ref)
    tgt = _target(x_ref, z_ref)
    try:
        z = T.inv(y)
    except Exception as e:  # noqa
        viol("inv-raises", [_exc(e)])
        return out
    n["real_calls"] += 1
    n["member_ops"] += n_members(chain)
    c = Cmp()
    c.walk(z, tgt)
    if c.bad:
        viol("roundtrip", c.bad)
    n["elements"] += c.compared
    n["skipped_elements"] += c.skipped
    # (3) inv on a generic point of the codomain = t_1^-1 o ... o t_n^-1 (where the reference says it is in the domain)
    w_ref = R.fill(R.shape_of(y_ref), lambda i: R.leaf_values(kind, i, rot + 2))
    v_ref = R.ref_inv_chain(refs, w_ref)
    try:
        v = T.inv(build(w_ref, kind))
    except Exception as e:  # noqa
        viol("inv-raises", [_exc(e)])
        return out
    n["real_calls"] += 1
    n["member_ops"] += n_members(chain)
    c = Cmp()
    c.walk(v, v_ref)
    if c.bad:
        viol("inv", c.bad)
    if "C" in R.member_letters(chain):
        # statistic: would a nested chain that inverts its own members first-to-last have been noticed (here or in the round trip)?
        n["nested"] += 1
        try:
            wrong = _wrong_nested(refs)
            sens = _differs(R.ref_inv_chain(wrong, w_ref), v_ref) or _differs(R.ref_inv_chain(wrong, y_ref), z_ref)
        except (R.RefMismatch, KeyError, TypeError, IndexError):
            sens = True
        n["nested_inner_inv_order_sensitive"] += int(sens)
    n["elements"] += c.compared
    n["skipped_elements"] += c.skipped
    return out


def run_den(case):
    """Denormalize alone on the grid -1, -.5, 0, .5, 1: apply(-1) == min and apply(+1) == max exactly (all values are
    small dyadic rationals, every float32 operation involved is exact), strictly increasing in between."""
    out = _new()
    n = out["n"]
    shape, kind, prot, narrow = case["shape"], case["kind"], case.get("prot", 0), bool(case.get("narrow"))
    b = ctx()["base"]
    ctxs = f"shape={R.shape_str(shape)} kind={kind} prot={prot}" + (" narrow bounds" if narrow else "")

    def viol(kind_, msgs):
        out["viol"].append((f"den{'-narrow' if narrow else ''}:{kind_}", f"{ctxs}: {kind_}: " + "; ".join(msgs[:3])))

    sh_ref = R.fill(shape, lambda i: 0.0)
    if not R.leaves(sh_ref):
        # observation only: the constructor cannot be called on a tree without leaves (nothing to normalise)
        try:
            b.Denormalize.init(build(sh_ref, kind), build(sh_ref, kind))
            out["obs"]["den_init_on_leafless_tree:ok"] = 1
        except Exception as e:  # noqa
            out["obs"][f"den_init_on_leafless_tree:raises {type(e).__name__}"] = 1
        return out
    n["cases"] += 1
    lo = R.fill(shape, lambda i: R.bound_values(kind, i, 0, prot, narrow)[0])
    hi = R.fill(shape, lambda i: R.bound_values(kind, i, 0, prot, narrow)[1])
    rd = R.RefDen(lo, hi)
    try:
        T = b.Denormalize.init(build(lo, kind), build(hi, kind))
    except Exception as e:  # noqa
        viol("init-raises", [_exc(e)])
        return out
    # the grid first (end points / monotonicity below use exactly these), then the alphabet values outside [-1, 1]
    # (round trip only: inv(apply(x)) = x is demanded on the whole domain, not only on the normalised interval)
    extra = [v for v in R.VALUES if abs(v) > 1.0]
    if kind == "vec":
        grids = [np.array(R.GRID, dtype=np.float64).reshape(5, 1), np.array(extra, dtype=np.float64).reshape(len(extra), 1)]
        n_grid = 1
    else:
        grids = [np.float64(g) for g in R.GRID + extra]
        n_grid = 5
    ys = []
    for g in grids:
        x_ref = R.fill(shape, lambda i: g)
        try:
            y = T.apply(build(x_ref, kind))
            z = T.inv(y)
        except Exception as e:  # noqa
            viol("raises", [_exc(e)])
            return out
        n["real_calls"] += 2
        n["member_ops"] += 2
        y_ref = rd.apply(x_ref)
        c = Cmp()
        c.walk(y, y_ref)
        if c.bad:
            viol("apply", c.bad)
        n["elements"] += c.compared
        c2 = Cmp()
        c2.walk(z, _target(x_ref, rd.inv(y_ref)))
        if c2.bad:
            viol("roundtrip", c2.bad)
        n["elements"] += c2.compared
        if c.bad:
            return out
        ys.append(y)
    # explicit end points / monotonicity on the real outputs (flattened by the reference structure)
    real_leaves = [_flat_real(y, sh_ref) for y in ys[:n_grid]]
    lo_l, hi_l = R.leaves(lo), R.leaves(hi)
    for li in range(len(lo_l)):
        if kind == "vec":
            col = np.asarray(real_leaves[0][li], dtype=np.float64)  # (5, 15) or (5, 3)
        else:
            col = np.array([float(np.asarray(real_leaves[g][li])) for g in range(5)]).reshape(5, 1)
        mn = np.broadcast_to(lo_l[li].v, col.shape[1:])
        mx = np.broadcast_to(hi_l[li].v, col.shape[1:])
        if not np.array_equal(col[0], mn):
            viol("min", [f"leaf {li}: Denormalize(-1) = {col[0].tolist()}, min = {mn.tolist()}"])
        if not np.array_equal(col[-1], mx):
            viol("max", [f"leaf {li}: Denormalize(+1) = {col[-1].tolist()}, max = {mx.tolist()}"])
        if not np.all(np.diff(col, axis=0) > 0):
            viol("monotone", [f"leaf {li}: grid images not strictly increasing: {col.T.tolist()[:3]}"])
        n["elements"] += int(col.size)
    return out


def _flat_real(real, ref):
    """Leaves of a real tree in the reference's traversal order (structure already verified by Cmp)."""
    if ref is None:
        return []
    if isinstance(ref, R.Leaf):
        return [real]
    if isinstance(ref, dict):
        return [x for k in ref for x in _flat_real(real[k], ref[k])]
    return _flat_real(real.u, ref[1]) + _flat_real(real.v, ref[2])


def run_extend(case):
    """Extend.apply(partial): None -> base subtree, supplied leaves untouched (value, dtype and Python type)."""
    out = _new()
    n = out["n"]
    shape, mask, kind, chain = case["shape"], case["mask"], case["kind"], case["chain"]
    rot, prot = case.get("rot", 0), case.get("prot", 0)
    b = ctx()["base"]
    base_ref = R.fill(shape, lambda i: R.leaf_values(kind, i, rot))
    # supplied values: the same alphabet shifted by 1/4 (still dyadic): disjoint from every base value
    part_ref = _fill_mask(shape, mask, lambda i: R.leaf_values(kind, i, rot) + 0.25)
    ctxs = f"base={R.shape_str(shape)} partial={R.shape_str(mask)} kind={kind} chain={R.chain_str(chain)}"
    sig_members = "".join(sorted({m[0] for m in chain}))

    def viol(kind_, msgs):
        out["viol"].append((f"extend:{kind_}:{sig_members}", f"{ctxs}: {kind_}: " + "; ".join(msgs[:3])))

    mm = make_members(chain, part_ref, kind, prot, base_ref=base_ref)
    if mm is None:
        n["den_on_leafless"] += 1
        return out
    refs, specs, _ = mm
    n["cases"] += 1
    base = build(base_ref, kind)
    part = build(part_ref, kind)
    try:
        members = [real_member(sp, kind, extend_args=(base, part)) for sp in specs]
        T = members[0] if len(members) == 1 else b.Chain.init(*members)
    except Exception as e:  # noqa
        viol("init-raises", [_exc(e)])
        return out
    try:
        y = T.apply(part)
    except Exception as e:  # noqa
        viol("apply-raises", [_exc(e)])
        return out
    n["real_calls"] += 1
    n["member_ops"] += len(chain)
    y_ref = R.ref_apply_chain(refs, part_ref)
    c = Cmp()
    c.walk(y, y_ref)
    if c.bad:
        viol("apply", c.bad)
    n["elements"] += c.compared
    n["skipped_elements"] += c.skipped
    if len(chain) == 1 and not c.bad:
        # untouched / filled: same Python type, dtype, shape and bits as the source leaf
        src_ref = R.RefExtend(_tag(base_ref, "base")).apply(_tag(part_ref, "part"))
        msgs = []
        _same_objects(y, src_ref, base, part, base_ref, part_ref, msgs)
        if msgs:
            viol("untouched", msgs)
        # observation only (not demanded by the property): Extend.inv
        try:
            back = T.inv(y)
            cc = Cmp()
            cc.walk(back, part_ref)
            out["obs"]["extend_inv:returns_partial" if not cc.bad else "extend_inv:returns_other"] = 1
        except Exception as e:  # noqa
            out["obs"][f"extend_inv:raises {type(e).__name__}"] = 1
    return out


def _fill_mask(shape, mask, leaf_fn):
    """Reference tree of a partial tree; leaf numbering follows the *base* shape so that leaf i keeps its identity."""
    counter = [0]

    def skip(s):
        if s == "L":
            counter[0] += 1
        elif s != "N":
            for _, c in R.children(s):
                skip(c)

    def rec(s, m):
        if m == "N":
            skip(s)
            return None
        if m == "L":
            i = counter[0]
            counter[0] += 1
            return R.Leaf(leaf_fn(i))
        if m[0] == "D":
            return {k: rec(t, mm) for (k, t), (_, mm) in zip(s[1:], m[1:])}
        return ("S", rec(s[1], m[1]), rec(s[2], m[2]))

    return rec(shape, mask)


class _Tagged(R.Leaf):
    __slots__ = ("src", "path")


def _tag(t, src, path=()):
    if t is None:
        return None
    if isinstance(t, R.Leaf):
        x = _Tagged(t.v)
        x.src, x.path = src, path
        return x
    if isinstance(t, dict):
        return {k: _tag(v, src, path + (("k", k),)) for k, v in t.items()}
    return ("S", _tag(t[1], src, path + (("f", "u"),)), _tag(t[2], src, path + (("f", "v"),)))


def _same_objects(y, src_ref, base, part, base_ref, part_ref, msgs, where=""):
    if src_ref is None:
        return
    if isinstance(src_ref, dict):
        for k in src_ref:
            _same_objects(y[k], src_ref[k], base, part, base_ref, part_ref, msgs, f"{where}.{k}")
        return
    if isinstance(src_ref, tuple):
        _same_objects(y.u, src_ref[1], base, part, base_ref, part_ref, msgs, f"{where}.u")
        _same_objects(y.v, src_ref[2], base, part, base_ref, part_ref, msgs, f"{where}.v")
        return
    origin = mk_getter(src_ref.path)(base if src_ref.src == "base" else part)
    if type(y) is not type(origin):
        msgs.append(f"{where}: type {type(y).__name__}, source leaf ({src_ref.src}) has type {type(origin).__name__}")
        return
    a, o = np.asarray(y), np.asarray(origin)
    if a.dtype != o.dtype or a.shape != o.shape or a.tobytes() != o.tobytes():
        msgs.append(f"{where}: {_short(y)} is not the {src_ref.src} leaf {_short(origin)}")


RUNNERS = dict(chain=run_chain, den=run_den, extend=run_extend)


def run_case(case):
    return RUNNERS[case["fam"]](case)


def work(task):
    """Pool task: expand a task (vf.c17_ref.expand) into its cases, run them, aggregate under the task's family name."""
    ctx()
    agg = dict(name=task["name"], viol=[], obs={}, n={}, enumerated=0)
    for case in R.expand(task):
        agg["enumerated"] += 1
        r = run_case(case)
        for sig, what in r["viol"]:
            if len(agg["viol"]) < 50:
                agg["viol"].append((sig, what, case))
        for k, v in r["obs"].items():
            agg["obs"][k] = agg["obs"].get(k, 0) + v
        for k, v in r["n"].items():
            agg["n"][k] = agg["n"].get(k, 0) + v
    return agg
