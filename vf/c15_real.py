"""C15 real side: runs rex (StaticDist / TrainableDist / BaseNode / GMMEstimator) on the members of the families of
vf.c15_ref and has every observation judged by the reference model. The functions here are Pool tasks
(`(module, function, arg)`), and are re-used one case at a time by replay."""
import contextlib
import io

import numpy as np

from vf import c15_ref as R

_CACHE = {}


def _mods():
    if "m" not in _CACHE:
        from vf.common import import_rex

        import_rex()
        import distrax
        import jax
        import jax.numpy as jnp

        from rex import base
        from rex.node import BaseNode

        _CACHE["m"] = (jax, jnp, distrax, base, BaseNode)
    return _CACHE["m"]


def build(spec):
    """spec -> (rex DelayDistribution, the raw distrax distribution or None)."""
    jax, jnp, distrax, base, _ = _mods()
    k = spec["kind"]
    if k == "det":
        raw = distrax.Deterministic(loc=spec["mu"])
    elif k == "normal":
        raw = distrax.Normal(loc=spec["mu"], scale=spec["sigma"])
    elif k == "mix":
        raw = distrax.MixtureSameFamily(
            mixture_distribution=distrax.Categorical(probs=jnp.array(spec["w"])),
            components_distribution=distrax.Normal(loc=jnp.array(spec["mu"]), scale=jnp.array(spec["sigma"])),
        )
    elif k == "train":
        if spec["form"] == "create":
            delay = spec["min"] + spec["alpha"] * (spec["max"] - spec["min"])
            return base.TrainableDist.create(delay=delay, min=spec["min"], max=spec["max"]), None
        return base.TrainableDist(alpha=jnp.float32(spec["alpha"]), min=spec["min"], max=spec["max"]), None
    else:
        raise ValueError(k)
    return base.StaticDist.create(raw), raw


def _keys(keyseeds):
    jax = _mods()[0]
    return [jax.random.PRNGKey(int(s)) for s in keyseeds]


def _bits(obj):
    """The rng state of a distribution object as a tuple of ints (() for TrainableDist)."""
    jax = _mods()[0]
    rng = getattr(obj, "rng", None)
    if rng is None:
        return ()
    if jax.dtypes.issubdtype(rng.dtype, jax.dtypes.prng_key):
        rng = jax.random.key_data(rng)
    return tuple(int(v) for v in np.asarray(rng).ravel())


def _params(obj):
    """Everything but the rng (identity of the static distribution / the trainable parameters)."""
    if hasattr(obj, "dist"):
        return ("static", id(obj.dist))
    return ("train", float(obj.alpha), float(obj.min), float(obj.max), obj.interp)


def _apply(ref, obj, st, op, keys):
    """Apply one operation to the real object, judge it. Returns (obj', state', [(sig, reason)], clipped, n)."""
    bad = []
    before, pbefore = _bits(obj), _params(obj)
    clipped = n = 0
    if op[0] == "reset":
        key = keys[op[1]]
        obj2 = obj.reset(key)
        st2 = ref.reset(st, tuple(int(v) for v in np.asarray(key).ravel()))
        if _bits(obj2) != st2:
            bad.append(("reset:rng", f"reset(k{op[1] + 1}) left rng state {_bits(obj2)}, expected {st2}"))
    else:
        shape = op[1] if not isinstance(op[1], list) else tuple(op[1])
        obj2, x = obj.sample(shape) if shape is not None else obj.sample()
        x = np.asarray(x)
        st2 = _bits(obj2)
        bad += ref.judge_sample(st, shape, st2, x)
        clipped, n = int(np.sum(x == 0)), int(x.size)
    if _bits(obj) != before or _params(obj) != pbefore:
        bad.append(("op:mutates-receiver", f"{R.op_name(op)} changed the object it was called on: rng {before} -> {_bits(obj)}"))
    if _params(obj2) != pbefore:
        bad.append(("op:changes-dist", f"{R.op_name(op)} returned a different distribution: {pbefore} -> {_params(obj2)}"))
    if type(obj2) is not type(obj):
        bad.append(("op:type", f"{R.op_name(op)} returned a {type(obj2).__name__}"))
    return obj2, st2, bad, clipped, n


def explore_histories(spec, depth, keyseeds, ref=None):
    """Breadth-first over all operation histories up to `depth` from `create`; every history is executed on the real
    objects (each node's object is the result of its parent's operation), every transition judged by RefDist."""
    keys = _keys(keyseeds)
    ref = ref or R.RefDist(spec)
    obj0, _ = build(spec)
    st0 = ref.reset((), _bits(obj0))  # create() == a distribution with the default rng
    level = [((), obj0, st0)]
    out = dict(ops=0, histories=0, viols=[], clipped=0, drawn=0)
    for _d in range(depth):
        nxt = []
        for path, obj, st in level:
            for op in R.OPS:
                obj2, st2, bad, c, n = _apply(ref, obj, st, op, keys)
                out["ops"] += 1
                out["clipped"] += c
                out["drawn"] += n
                p2 = path + (op,)
                for sig, why in bad:
                    out["viols"].append((sig, why, list(p2)))
                nxt.append((p2, obj2, st2))
        out["histories"] += len(nxt)
        level = nxt
    out["states"] = len(ref.states)
    out["table"] = len(ref.table)
    return out, ref


def run_path(spec, ops, keyseeds):
    """One history, executed twice from fresh objects against one reference (replay of a history violation)."""
    keys = _keys(keyseeds)
    ref = R.RefDist(spec)
    bad_all = []
    for _rep in range(2):
        obj, _ = build(spec)
        st = ref.reset((), _bits(obj))
        for op in ops:
            op = (op[0], tuple(op[1]) if isinstance(op[1], list) else op[1])
            obj, st, bad, _, _ = _apply(ref, obj, st, op, keys)
            bad_all += bad
    return bad_all


def check_jit(spec, ref, keyseeds):
    """sample_pure under jit == eager sample from every rng state the histories reached (shape (3,)).
    rng bits must be equal; values may differ by float32 contraction of mu + sigma * z (FMA): rtol 1e-5."""
    jax, jnp, distrax, base, _ = _mods()
    obj0, _ = build(spec)
    f = jax.jit(base.DelayDistribution.sample_pure, static_argnums=1)
    bad, n = [], 0
    states = sorted(s for s in ref.states if (s, (3,)) in ref.table)
    for st in states:
        obj = obj0.reset(jnp.array(st, dtype=jnp.uint32)) if ref.has_rng else obj0
        obj2, x = f(obj, (3,))
        n += 1
        exp_state, exp_bytes, dt = ref.table[(st, (3,))]
        exp = np.frombuffer(exp_bytes, dtype=dt)
        x = np.asarray(x)
        sg = spec.get("sigma", 0.0)
        sg = max(sg) if isinstance(sg, list) else float(sg or 0.0)
        scale = max(1e-30, float(np.max(np.abs(exp))) if exp.size else 0.0, sg)
        if _bits(obj2) != exp_state:
            bad.append(("sample:jit-differs", f"jit(sample_pure) from rng {st} -> rng {_bits(obj2)}, eager -> {exp_state}"))
        elif x.shape != exp.shape or not np.allclose(x, exp, rtol=1e-5, atol=1e-5 * scale):
            bad.append(("sample:jit-differs", f"jit(sample_pure) from rng {st} gave {x.tolist()}, eager {exp.tolist()}"))
        elif np.any(x < 0):
            bad.append(("sample:negative", f"jit(sample_pure) from rng {st} gave {x.tolist()}"))
    return bad, n


# ------------------------------------------------------------------------------------------------
# quantiles
# ------------------------------------------------------------------------------------------------
def _call_quantile(obj, q):
    """Returns (value or None, error string or None). rex prints a diagnostic before raising; keep stdout clean."""
    buf = io.StringIO()
    try:
        with contextlib.redirect_stdout(buf):
            r = obj.quantile(q)
        return float(np.asarray(r)), None
    except Exception as e:  # noqa
        return None, f"{type(e).__name__}: {e} {buf.getvalue().strip()[:300]}"


def check_quantile_one(spec, q, obj=None):
    obj = obj if obj is not None else build(spec)[0]
    r, err = _call_quantile(obj, q)
    if err is not None:
        cls = "low-q" if q < 0.5 else "high-q"
        return None, [(f"quantile:{spec['kind']}:raises-{cls}", f"{R.spec_name(spec)}.quantile({q}) raised {err}")]
    why = R.judge_quantile(spec, q, r)
    return r, ([(f"quantile:{spec['kind']}:cdf-mismatch", f"{R.spec_name(spec)}: {why}")] if why else [])


def check_quantiles(spec, keyseeds):
    """All 41 levels as python floats (the way rex calls it), monotonicity over the grid, independence of the rng."""
    obj, _ = build(spec)
    viols, vals = [], []
    levels = R.quantile_levels()
    for q in levels:
        r, bad = check_quantile_one(spec, q, obj)
        vals.append(r)
        viols += [(sig, why, dict(kind="quantile", spec=spec, q=q)) for sig, why in bad]
    prev = None
    for q, r in zip(levels, vals):
        if r is None:
            continue
        if prev is not None and r < prev[1]:
            viols.append((f"quantile:{spec['kind']}:not-monotone", f"{R.spec_name(spec)}: quantile({prev[0]}) = {prev[1]!r} > quantile({q}) = {r!r}",
                          dict(kind="monotone", spec=spec, q=[prev[0], q])))
        prev = (q, r)
    # the quantile is a property of `dist` alone: the same after reset / sample
    n = len(levels)
    o2 = obj.reset(_keys(keyseeds)[0])
    o3, _ = o2.sample(3)
    for o, tag in ((o2, "reset"), (o3, "sample")):
        r, _err = _call_quantile(o, 0.99)
        n += 1
        i99 = levels.index(0.99)
        if r != vals[i99] and not (r is None and vals[i99] is None):
            viols.append((f"quantile:{spec['kind']}:depends-on-rng", f"{R.spec_name(spec)}: quantile(0.99) = {vals[i99]!r}, after {tag} {r!r}", dict(kind="quantile", spec=spec, q=0.99)))
    # array-valued q (not demanded by the property, whose q is a float): observed only
    arr_ok = None
    try:
        with contextlib.redirect_stdout(io.StringIO()):
            ra = np.asarray(obj.quantile(np.array([0.25, 0.5, 0.99])), dtype=np.float64).ravel()
        arr_ok = bool(len(ra) == 3 and all(v is not None and abs(a - v) <= 4 * R.ulp32(v) for a, v in zip(ra, [vals[levels.index(q)] for q in (0.25, 0.5, 0.99)])))
    except Exception:  # noqa
        arr_ok = False
    return dict(n=n, viols=viols, q99=vals[levels.index(0.99)], q50=vals[levels.index(0.5)], array_q_ok=arr_ok, values=vals)


def check_mixq_one(spec, gname, vname, raw=None):
    """One direct call of rex.utils.mixture_distribution_quantiles, the way StaticDist.quantile calls it, with a level vector."""
    import rex.utils as utils

    jnp = _mods()[1]
    raw = raw if raw is not None else build(spec)[1]
    grid = R.mixq_grids(spec)[gname]
    levels = R.mixq_level_vectors()[vname]
    buf = io.StringIO()
    try:
        with contextlib.redirect_stdout(buf):
            ret = utils.mixture_distribution_quantiles(dist=raw, probs=jnp.array(levels).reshape(-1), N_grid_points=R.GRID_N, grid_min=float(grid[0]), grid_max=float(grid[1]))
        ret = np.asarray(ret, dtype=np.float64)
    except RuntimeError:
        ret = None
    except Exception as e:  # noqa
        return "other", [("mixq:raises", f"{R.spec_name(spec)} grid {gname} levels {vname}: {type(e).__name__}: {e}")]
    bad = R.judge_mixq(spec, grid, levels, ret)
    return ("raised" if ret is None else "returned"), [(sig, f"mixture_distribution_quantiles({R.spec_name(spec)}, levels '{vname}', grid '{gname}'): {why}") for sig, why in bad]


def check_mixq(spec):
    """All grids x all level vectors for one mixture of the lattice."""
    raw = build(spec)[1]
    out = dict(n=0, raised=0, returned=0, levels=0, viols=[])
    for gname in R.mixq_grids(spec):
        for vname, lv in R.mixq_level_vectors().items():
            how, bad = check_mixq_one(spec, gname, vname, raw)
            out["n"] += 1
            out["levels"] += len(lv)
            out["raised"] += int(how == "raised")
            out["returned"] += int(how == "returned")
            seen = set()
            for sig, why in bad:
                if sig not in seen:  # one per signature and call is enough
                    seen.add(sig)
                    out["viols"].append((sig, why, dict(kind="mixq", spec=spec, grid=gname, levels=vname)))
    return out


# ------------------------------------------------------------------------------------------------
# default delays of nodes / connections
# ------------------------------------------------------------------------------------------------
def check_node_default(spec):
    """BaseNode(delay_dist=d).delay and Connection(delay_dist=d).delay == d.quantile(0.99) >= 0 (and judged by the
    reference CDF); an explicit delay wins. Computation delays cannot be trainable in rex, so TrainableDist is
    checked on connections only."""
    jax, jnp, distrax, base, BaseNode = _mods()
    obj, raw = build(spec)
    viols, n = [], 0
    rp = dict(kind="node", spec=spec)

    def judge(where, got):
        bad = []
        if not (isinstance(got, float) and got >= 0.0):
            bad.append((f"default-delay:{spec['kind']}:negative", f"{where}: default delay {got!r} for {R.spec_name(spec)}"))
        why = R.judge_quantile(spec, 0.99, got)
        if why:
            bad.append((f"default-delay:{spec['kind']}:not-q99", f"{where}: default delay {got!r} is not the 99th percentile of {R.spec_name(spec)}: {why}"))
        return [(s, w, rp) for s, w in bad]

    forms = [("wrapped", obj)] + ([("raw-distrax", raw)] if raw is not None else [])
    for tag, dd in forms:
        try:
            with contextlib.redirect_stdout(io.StringIO()):
                if spec["kind"] != "train":
                    node = BaseNode("n", rate=10.0, delay_dist=dd)
                    n += 1
                    viols += judge(f"BaseNode(delay_dist={tag})", node.delay)
                    node2 = BaseNode("m", rate=10.0, delay_dist=dd, delay=0.125)
                    n += 1
                    if node2.delay != 0.125:
                        viols.append(("default-delay:explicit-ignored", f"BaseNode(delay=0.125, delay_dist=..).delay = {node2.delay!r}", rp))
                a, b = BaseNode("a", rate=10.0), BaseNode("b", rate=20.0)
                b.connect(a, delay_dist=dd, name="a")
                n += 1
                viols += judge(f"connect(delay_dist={tag})", b.inputs["a"].delay)
                a.connect(b, delay_dist=dd, delay=0.125, name="b")
                n += 1
                if a.inputs["b"].delay != 0.125:
                    viols.append(("default-delay:explicit-ignored", f"connect(delay=0.125, delay_dist=..).delay = {a.inputs['b'].delay!r}", rp))
        except Exception as e:  # noqa
            viols.append((f"default-delay:{spec['kind']}:raises", f"constructing a node/connection with {R.spec_name(spec)} ({tag}) raised {type(e).__name__}: {e}", rp))
    return dict(n=n, viols=viols)


# ------------------------------------------------------------------------------------------------
# Pool tasks
# ------------------------------------------------------------------------------------------------
def task_dist(arg):
    spec, depth, keyseeds = arg["spec"], arg["depth"], arg["keyseeds"]
    h, ref = explore_histories(spec, depth, keyseeds)
    viols = [(sig, f"{R.spec_name(spec)} after {' ; '.join(R.op_name(o) for o in path)}: {why}", dict(kind="hist", spec=spec, ops=path, keyseeds=keyseeds)) for sig, why, path in h.pop("viols")]
    jb, jn = check_jit(spec, ref, keyseeds) if arg.get("jit", True) else ([], 0)
    viols += [(sig, f"{R.spec_name(spec)}: {why}", dict(kind="jit", spec=spec, depth=depth, keyseeds=keyseeds)) for sig, why in jb]
    q = check_quantiles(spec, keyseeds)
    nd = check_node_default(spec)
    viols += q.pop("viols") + nd.pop("viols")
    mq = check_mixq(spec) if spec["kind"] == "mix" else dict(n=0, raised=0, returned=0, levels=0, viols=[])
    viols += mq.pop("viols")
    return dict(spec=spec, hist=h, jit=jn, quant=q, node=nd, mixq=mq, viols=viols)


def _fit(data, ncomp, fseed, percentile):
    import rex.gmm_estimator as G

    jax, jnp, distrax, base, _ = _mods()
    with contextlib.redirect_stdout(io.StringIO()):
        est = G.GMMEstimator(np.asarray(data, dtype=np.float64), verbose=False)
        est.fit(num_steps=100, num_components=ncomp, step_size=0.05, seed=fseed)
        sd = est.get_dist(percentile=percentile)
    d = sd.dist
    if isinstance(d, distrax.Deterministic):
        return sd, dict(kind="det", mu=float(np.asarray(d.loc)))
    if isinstance(d, distrax.MixtureSameFamily):
        return sd, dict(kind="mix", w=np.asarray(d.mixture_distribution.probs, dtype=np.float64).tolist(),
                        mu=np.asarray(d.components_distribution.loc, dtype=np.float64).tolist(), sigma=np.asarray(d.components_distribution.scale, dtype=np.float64).tolist())
    return sd, dict(kind=type(d).__name__)


def _use(sd, what):
    """The estimated distribution must be usable as a delay distribution: samples >= 0, finite 99th percentile >= 0."""
    bad = []
    try:
        with contextlib.redirect_stdout(io.StringIO()):
            _, x = sd.sample(3)
            q = float(np.asarray(sd.quantile(0.99)))
        x = np.asarray(x)
        if not (np.all(np.isfinite(x)) and np.all(x >= 0)):
            bad.append(("gmm:sample", f"{what}: samples {x.tolist()}"))
        if not (np.isfinite(q) and q >= 0):
            bad.append(("gmm:quantile", f"{what}: quantile(0.99) = {q!r}"))
    except Exception as e:  # noqa
        bad.append(("gmm:unusable", f"{what}: sample/quantile raised {type(e).__name__}: {e}"))
    return bad


def task_gmm_const(arg):
    """Constant data -> Deterministic at that value (in data units)."""
    _mods()
    c, n, scale = arg["c"], arg["n"], arg["scale"]
    v = c * scale
    data = np.full(n, v)
    rp = dict(kind="gmm_const", c=c, n=n, scale=scale)
    viols = []
    what = f"{n} x constant delay {v!r}"
    try:
        sd, got = _fit(data, 2, 0, 0.99)
    except Exception as e:  # noqa
        return dict(arg=arg, got=None, viols=[("gmm:raises", f"{what}: {type(e).__name__}: {e}", rp)])
    if got["kind"] != "det":
        viols.append(("gmm:constant-not-deterministic", f"{what}: estimator returned {got}", rp))
        if got["kind"] == "mix":
            viols += [(s, f"{what}: {w}", rp) for s, w in R.judge_gmm(data, got["w"], got["mu"], got["sigma"]) if s in ("gmm:nonpositive-scale", "gmm:not-finite", "gmm:weights")]
    elif abs(got["mu"] - v) > 2 * R.ulp32(v):
        viols.append(("gmm:constant-value", f"{what}: Deterministic({got['mu']!r})", rp))
    if got["kind"] == "det":
        viols += [(s, w, rp) for s, w in _use(sd, what)]
    return dict(arg=arg, got=got, viols=viols)


def task_gmm_fit(arg):
    """One data set at the three scales with one fit setting: proper distribution at each scale, and the same fit up to
    the unit: fit(c * data) == c * fit(data) (weights equal, means and scales times c)."""
    _mods()
    name, ncomp, fseed, pct = arg["data"], arg["ncomp"], arg["fseed"], arg["percentile"]
    base_data = R.gmm_datasets()[name]
    viols, res = [], {}
    for sc in arg.get("scales", R.GMM_SCALES):
        rp = dict(kind="gmm_fit", data=name, ncomp=ncomp, fseed=fseed, percentile=pct, scales=[sc])
        data = base_data * sc
        what = f"data set {name} x {sc:g} (num_components={ncomp}, seed={fseed}, percentile={pct})"
        try:
            sd, got = _fit(data, ncomp, fseed, pct)
        except Exception as e:  # noqa
            viols.append(("gmm:raises", f"{what}: {type(e).__name__}: {e}", rp))
            continue
        res[sc] = got
        if got["kind"] != "mix":
            viols.append(("gmm:kind", f"{what}: estimator returned {got}", rp))
            continue
        bad = R.judge_gmm(data, got["w"], got["mu"], got["sigma"])
        viols += [(s, f"{what}: {w}", rp) for s, w in bad]
        if not bad:
            viols += [(s, w, rp) for s, w in _use(sd, what)]
    dev = 0.0
    if 1.0 in res and res[1.0]["kind"] == "mix":
        ref1 = res[1.0]
        sd1 = float(np.std(base_data))
        for sc, got in res.items():
            if sc == 1.0 or got["kind"] != "mix":
                continue
            rp = dict(kind="gmm_fit", data=name, ncomp=ncomp, fseed=fseed, percentile=pct, scales=[1.0, sc])
            if len(got["w"]) != len(ref1["w"]):
                viols.append(("gmm:units-equivariance", f"{name}: {len(ref1['w'])} components at scale 1, {len(got['w'])} at scale {sc:g}", rp))
                continue
            dw = float(np.max(np.abs(np.array(got["w"]) - np.array(ref1["w"]))))
            dm = float(np.max(np.abs(np.array(got["mu"]) / sc - np.array(ref1["mu"])))) / sd1
            dsg = float(np.max(np.abs(np.log(np.array(got["sigma"]) / sc) - np.log(np.array(ref1["sigma"])))))
            dev = max(dev, dw, dm, dsg)
            # normalised data are equal up to float32 rounding, 100 Adam steps keep that below 1e-4 (measured); a unit
            # error is a factor 1e3. 2e-2 leaves two orders of magnitude on either side.
            if max(dw, dm, dsg) > 2e-2:
                viols.append(("gmm:units-equivariance", f"{name}: fit at scale {sc:g} is not {sc:g} x the fit at scale 1: d(weights)={dw:.3g} d(means)/std={dm:.3g} d(log scales)={dsg:.3g}; "
                                                          f"scale 1: {ref1}, scale {sc:g}: {got}", rp))
    return dict(arg=arg, res={str(k): v for k, v in res.items()}, dev=dev, viols=viols, fits=len(res))


def task_any(arg):
    """Single entry point so that one Pool.imap can pack all task kinds (longest first)."""
    import time

    t = time.process_time()
    res = globals()[arg["task"]](arg)
    res["cpu_s"] = time.process_time() - t
    return arg["task"], res
