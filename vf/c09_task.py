"""C09 worker: explicit-state BFS over API call sequences of the compiled runtime with state comparison."""
import collections

import numpy as onp


def _canon(gs):
    import jax

    leaves, treedef = jax.tree_util.tree_flatten(gs)
    return [onp.asarray(x) for x in leaves], str(treedef)


def _same(a, b):
    (la, ta), (lb, tb) = a, b
    if ta != tb or len(la) != len(lb):
        return "tree-structure"
    for i, (x, y) in enumerate(zip(la, lb)):
        if x.shape != y.shape or x.dtype != y.dtype:
            return f"leaf{i}:shape/dtype {x.shape}{x.dtype} vs {y.shape}{y.dtype}"
        if not onp.array_equal(x, y):
            return f"leaf{i}:values"
    return None


def c09_task(arg):
    from vf.common import import_rex

    import_rex()
    import jax
    import jax.numpy as jnp

    from vf.compiled_tasks import _prep
    from vf.compiledx import build_graph, init_with_rng
    from vf.probes import build_nodes, classes

    src, mode, prune, depth = arg["src"], arg["mode"], arg["prune"], arg["depth"]
    out = dict(name=f"{src['name']}:{mode}", instances=1, states=0, transitions=0, traces=0, violations=[], skipped=None, paths=0)
    graphs_raw, eps_py, aux = _prep(src)
    if graphs_raw is None:
        out["skipped"] = "not convertible"
        return out
    nodes, sup = build_nodes(src["spec"], xp="jnp")
    g = build_graph(nodes, sup, graphs_raw, mode, prune)
    trace = []  # a second instance whose probes report to the host (io_callback cannot be vmapped): params clause only
    nodes_t, sup_t = build_nodes(src["spec"], xp="jnp", trace=trace)
    g_t = build_graph(nodes_t, sup_t, graphs_raw, mode, prune)
    run_t = jax.jit(g_t.run)
    M = g.max_steps
    n_eps = len(eps_py)
    errs = []

    def err(sig, *d):
        if len(errs) < 12:
            errs.append((sig, d))

    def own(gs, ss):  # the supervisor's own step result handed to step()
        new_ss, o = sup.step(ss)
        return g.step(gs, new_ss, o)

    J = dict(
        run=jax.jit(g.run), reset=jax.jit(g.reset), step=jax.jit(lambda a: g.step(a)), step_own=jax.jit(own),
        roll={m: jax.jit(lambda a, m=m: g.rollout(a, max_steps=m, carry_only=True)) for m in (1, 2, 3)},
        rollfull={m: jax.jit(lambda a, m=m: g.rollout(a, max_steps=m, carry_only=False)) for m in (2, 3)},
    )
    E = dict(run=g.run, reset=g.reset, step=lambda a: g.step(a), step_own=own)
    for e in arg.get("eps", [0]):
        gs0 = init_with_rng(g, None, eps=e, seed=arg.get("seed", 0))
        # ---- BFS over call sequences; a state is ("c"|"o", k); every path reaching it must give the same pytree ----
        seen = {("c", 0): (_canon(gs0), ())}
        frontier = collections.deque([(("c", 0), gs0, None, ())])
        while frontier:
            (typ, k), gs, ss, path = frontier.popleft()
            if len(path) >= depth:
                continue
            succ = []
            if typ == "c":
                if k + 1 <= M:
                    succ.append(("run", ("c", k + 1), lambda: (J["run"](gs), None)))
                    succ.append(("reset", ("o", k + 1), lambda: J["reset"](gs)))
                    if len(path) <= 1:
                        succ.append(("run[eager]", ("c", k + 1), lambda: (E["run"](gs), None)))
                for m in (1, 2, 3):
                    if k + m <= M:
                        succ.append((f"rollout({m})", ("c", k + m), lambda m=m: (J["roll"][m](gs), None)))
                for m in (2, 3):
                    if k + m <= M and len(path) <= 1:
                        succ.append((f"rollout({m},full)", ("c", k + m), lambda m=m: ("FULL", J["rollfull"][m](gs))))
            else:
                if k + 1 <= M:
                    succ.append(("step", ("o", k + 1), lambda: J["step"](gs)))
                    succ.append(("step(own result)", ("o", k + 1), lambda: J["step_own"](gs, ss)))
                    if len(path) <= 1:
                        succ.append(("step[eager]", ("o", k + 1), lambda: E["step"](gs)))
            for name, key, fn in succ:
                res = fn()
                out["transitions"] += 1
                if isinstance(res[0], str):  # full trajectory: row i must be the state after i+1 runs; last row is the result
                    traj = res[1]
                    m = key[1] - k
                    for i in range(m):
                        row = jax.tree_util.tree_map(lambda x: x[i], traj)
                        kk = ("c", k + i + 1)
                        if kk in seen:
                            d = _same(_canon(row), seen[kk][0])
                            if d:
                                err("state-depends-on-api-path", dict(state=kk, path=path + (name + f"[row {i}]",), other=seen[kk][1], diff=d))
                    ngs, nss = jax.tree_util.tree_map(lambda x: x[m - 1], traj), None
                else:
                    ngs, nss = res
                npath = path + (name,)
                out["paths"] += 1
                c = _canon(ngs)
                if key in seen:
                    d = _same(c, seen[key][0])
                    if d:
                        err("state-depends-on-api-path", dict(state=key, path=npath, other=seen[key][1], diff=d))
                    if key[0] == "o" and nss is not None:
                        pass
                else:
                    seen[key] = (c, npath)
                frontier.append((key, ngs, nss, npath))
        out["states"] += len(seen)
        # ---- vmapped batch: row j == un-vmapped run j (different rng / eps / step per row) ----------------------------
        rows = [(arg.get("seed", 0) + 1, 0, 0), (arg.get("seed", 0) + 2, min(1, n_eps - 1), 0), (arg.get("seed", 0) + 3, 0, min(1, M - 1))]
        singles = [g.init(rng=jax.random.PRNGKey(r), starting_eps=ee, starting_step=st) for r, ee, st in rows]
        batched = jax.tree_util.tree_map(lambda *x: jnp.stack(x), *singles)
        for nm, f in (("run", g.run), ("rollout(2)", lambda a: g.rollout(a, max_steps=2, carry_only=True))):
            if nm == "rollout(2)" and M < 3:
                continue
            vb = jax.jit(jax.vmap(f))(batched)
            fj = jax.jit(f)
            for j, sgl in enumerate(singles):
                out["transitions"] += 1
                d = _same(_canon(jax.tree_util.tree_map(lambda x: x[j], vb)), _canon(fj(sgl)))
                if d:
                    err("vmapped-row-differs-from-single-run", dict(call=nm, row=j, init=rows[j], diff=d))
        # ---- init(): starting eps / step are clipped (not wrapped); params overrides are what the steps see -------------
        last_e, last_s = n_eps - 1, M  # valid step indices 0..M (= P-1)
        for given, clipped, wrapped in [(-1, 0, last_e), (last_e + 5, last_e, (last_e + 5) % n_eps), (0, 0, 0), (last_e, last_e, last_e)]:
            a = g.init(rng=jax.random.PRNGKey(5), starting_eps=given)
            b = g.init(rng=jax.random.PRNGKey(5), starting_eps=clipped)
            out["transitions"] += 1
            if int(a.eps) != clipped:
                err("init:starting_eps-not-clipped", dict(given=given, got=int(a.eps), expected=clipped))
            d = _same(_canon(J["run"](a)), _canon(J["run"](b)))
            if d:
                err("init:run-after-out-of-range-eps-differs-from-clipped", dict(given=given, clipped=clipped, diff=d))
        for given, clipped in [(-1, 0), (0, 0), (1, min(1, last_s)), (last_s, last_s), (last_s + 3, last_s)]:
            a = g.init(rng=jax.random.PRNGKey(6), starting_step=given)
            b = g.init(rng=jax.random.PRNGKey(6), starting_step=clipped)
            out["transitions"] += 1
            if int(a.step) != clipped:
                err("init:starting_step-not-clipped", dict(given=given, got=int(a.step), expected=clipped))
            d = _same(_canon(J["run"](a)), _canon(J["run"](b)))
            if d:
                err("init:run-after-out-of-range-step-differs-from-clipped", dict(given=given, clipped=clipped, diff=d))
        # rollout clips too (replace_eps / replace_step on the carried state)
        a = gs0.replace(eps=jnp.int32(n_eps + 3), step=jnp.int32(-2))
        b = gs0.replace_eps(g.timings, jnp.int32(last_e)).replace(step=jnp.int32(0))
        d = _same(_canon(J["roll"][1](a)), _canon(J["roll"][1](b)))
        out["transitions"] += 1
        if d:
            err("rollout:out-of-range-eps/step-not-clipped", dict(diff=d))
        # replace_eps on an initialised state: same as initialising with that episode (rng and buffers are episode independent)
        if n_eps > 1:
            a = g.init(rng=jax.random.PRNGKey(8), starting_eps=0).replace_eps(g.timings, jnp.int32(n_eps - 1))
            b = g.init(rng=jax.random.PRNGKey(8), starting_eps=n_eps - 1)
            out["transitions"] += 1
            d = _same(_canon(J["run"](a)), _canon(J["run"](b)))
            if d:
                err("replace_eps:run-differs-from-init-with-that-episode", dict(diff=d))
        # params override
        C = classes()
        first = sorted(nodes)[0]
        pv = 777 + e
        del trace[:]
        gp = g_t.init(rng=jax.random.PRNGKey(7), params={first: C["PParams"](p=onp.array([pv], dtype=onp.uint32))}, starting_eps=e)
        jax.block_until_ready(run_t(gp))
        jax.effects_barrier()
        out["transitions"] += 1
        seen_p = {t["node"]: t["p"] for t in trace}
        from vf.probes import node_ids, py_param

        ids = node_ids(src["spec"])
        for n, p in seen_p.items():
            exp = pv if n == first else py_param(ids[n])
            if p != exp:
                err("init:params-override-not-what-steps-see", dict(node=n, seen=p, expected=exp))
        if first not in seen_p and any(s["kind"] == first for s in []):
            pass
        del trace[:]
    out["traces"] = out["paths"]
    out["instances"] = out["paths"]
    seen_sig = set()
    for sig, det in errs:
        if sig not in seen_sig:
            seen_sig.add(sig)
            out["violations"].append((sig, det, dict(src=src, mode=mode, prune=prune, depth=depth, eps=arg.get("eps", [0]))))
    return out
