"""Harness graphs (specs) and the finite families enumerated by the threaded-runtime checks (DESIGN 4.1, 6)."""
import copy
import itertools


def d(nominal, script=(), expected=None):
    x = {"nominal": nominal, "script": list(script)}
    if expected is not None:
        x["expected"] = expected
    return x


def node(rate, comp=1, sched="FREQ", advance=False, script=()):
    return {"rate": rate, "sched": sched, "advance": advance, "comp": d(comp, script)}


def edge(o, n, blocking=False, jitter="LATEST", skip=False, window=1, comm=1, script=()):
    return {"o": o, "n": n, "blocking": blocking, "jitter": jitter, "skip": skip, "window": window, "comm": d(comm, script)}


def spec(nodes, edges, sup):
    return {"nodes": nodes, "edges": edges, "supervisor": sup}


# ---- lifecycle harnesses (C05) -------------------------------------------------------------------
def L0():
    return spec({"b": node(16, 1)}, [], "b")


def L1(ra=16, rb=16, ca=1, cb=1, cm=1, w=1, jitter="LATEST"):
    return spec({"a": node(ra, ca), "b": node(rb, cb)}, [edge("a", "b", window=w, comm=cm, jitter=jitter)], "b")


def L2(ra=16, rb=16, sched="FREQ"):
    """2-cycle with skip: the supervisor's next step depends on its own last output"""
    return spec(
        {"a": node(ra, 1, sched), "b": node(rb, 1, sched)},
        [edge("a", "b", window=2, comm=1), edge("b", "a", skip=True, comm=1)],
        "b",
    )


def L3():
    """source -> supervisor -> blocking consumer"""
    return spec(
        {"a": node(16, 1), "b": node(16, 1), "c": node(16, 1)},
        [edge("a", "b", comm=1), edge("b", "c", blocking=True, comm=1)],
        "b",
    )


def L4(sup="c"):
    """3-node cycle a -> b -> c ~> a (skip), mixed blocking / BUFFER"""
    return spec(
        {"a": node(16, 1), "b": node(16, 1), "c": node(8, 2)},
        [edge("a", "b", blocking=True, comm=1), edge("b", "c", jitter="BUFFER", window=2, comm=1), edge("c", "a", skip=True, comm=1)],
        sup,
    )


# ---- determinism harnesses (C02) -------------------------------------------------------------------
def H1(script_a=(), script_ab=()):
    s = L2(16, 8)
    s["nodes"]["b"]["comp"] = d(2)
    s["nodes"]["a"]["comp"] = d(1, script_a)
    s["edges"][0]["comm"] = d(1, script_ab)
    return s


def H2(jitter="LATEST", script_a=(), script_ab=()):
    s = L1(16, 8, 1, 2, 1, 2, jitter)
    s["nodes"]["a"]["comp"] = d(1, script_a)
    s["edges"][0]["comm"] = d(1, script_ab)
    return s


def H3(script_a=(), script_ab=()):
    """blocking chain a -> b -> c, supervisor c"""
    return spec(
        {"a": node(16, 1, script=script_a), "b": node(16, 1), "c": node(8, 2)},
        [edge("a", "b", blocking=True, comm=1, script=script_ab), edge("b", "c", blocking=True, window=2, comm=1)],
        "c",
    )


def H4(script_a=(), script_ab=()):
    s = L4("c")
    s["nodes"]["a"]["comp"] = d(1, script_a)
    s["edges"][0]["comm"] = d(1, script_ab)
    return s


def H5(script_a=(), script_ac=()):
    """fan-in with rate ratio 1:4"""
    return spec(
        {"a": node(32, 1, script=script_a), "c": node(8, 2), "b": node(8, 2)},
        [edge("a", "b", window=3, comm=1, script=script_ac), edge("c", "b", jitter="BUFFER", comm=1)],
        "b",
    )


# ---- call histories ----------------------------------------------------------------------------------
def episode_forms(kmax=2, override=True):
    forms = []
    for k in range(kmax + 1):
        forms.append([["reset"]] + [["step"]] * k)
    for k in range(1, kmax + 1):
        forms.append([["run"]] * k)
    if override:
        forms.append([["reset"], ["step_override"], ["step"]])
        forms.append([["reset"], ["step"], ["step_override"]])
    return forms


def histories(n_eps=2, kmax=2, override=True):
    """every well-formed history of <= n_eps episodes; episodes separated by stop or (before a reset) nothing; ends in stop"""
    forms = episode_forms(kmax, override)
    out = []
    for n in range(1, n_eps + 1):
        for combo in itertools.product(forms, repeat=n):
            seps_options = []
            for nxt in combo[1:]:
                seps_options.append([True, False] if nxt[0][0] == "reset" else [True])
            for seps in itertools.product(*seps_options):
                h = []
                for i, f in enumerate(combo):
                    h.extend(copy.deepcopy(f))
                    if i < len(combo) - 1 and seps[i]:
                        h.append(["stop"])
                h.append(["stop"])
                out.append(h)
    return out


def hist_name(h):
    m = {"reset": "R", "step": "s", "step_override": "o", "run": "r", "stop": "."}
    return "".join(m[o[0]] for o in h)
