"""Harness graphs (specs) and the finite families enumerated by the threaded-runtime checks (DESIGN 4.1, 6)."""
import copy
import itertools


def d(nominal, script=(), expected=None):
    x = {"nominal": nominal, "script": list(script)}
    if expected is not None:
        x["expected"] = expected
    return x


def node(rate, comp=1, sched="FREQ", advance=False, script=()):
    return {"rate": rate, "sched": sched, "advance": advance, "comp": d(comp, script)}


def edge(o, n, blocking=False, jitter="LATEST", skip=False, window=1, comm=1, script=()):
    return {"o": o, "n": n, "blocking": blocking, "jitter": jitter, "skip": skip, "window": window, "comm": d(comm, script)}


def spec(nodes, edges, sup):
    return {"nodes": nodes, "edges": edges, "supervisor": sup}


# ---- lifecycle harnesses (C05) -------------------------------------------------------------------
def L0():
    return spec({"b": node(16, 1)}, [], "b")


def L5():
    """supervisor feeding a consumer: at stop() time the consumer's worker is idle (nothing queued in front of _stopping)"""
    return spec({"b": node(16, 1), "c": node(16, 1)}, [edge("b", "c", comm=1)], "b")


def L6(cm=16):
    """supervisor b <- a over a non-blocking skip connection with a long communication delay, a <- b blocking: under a
    throttled simulated clock a message of a is still 'travelling' (its push task sleeps) when the user stops early"""
    return spec({"a": node(8, 1), "b": node(16, 1)}, [edge("a", "b", comm=cm, skip=True), edge("b", "a", blocking=True, comm=1)], "b")


def L1(ra=16, rb=16, ca=1, cb=1, cm=1, w=1, jitter="LATEST"):
    return spec({"a": node(ra, ca), "b": node(rb, cb)}, [edge("a", "b", window=w, comm=cm, jitter=jitter)], "b")


def L2(ra=16, rb=16, sched="FREQ"):
    """2-cycle with skip: the supervisor's next step depends on its own last output"""
    return spec(
        {"a": node(ra, 1, sched), "b": node(rb, 1, sched)},
        [edge("a", "b", window=2, comm=1), edge("b", "a", skip=True, comm=1)],
        "b",
    )


def L3():
    """source -> supervisor -> blocking consumer"""
    return spec(
        {"a": node(16, 1), "b": node(16, 1), "c": node(16, 1)},
        [edge("a", "b", comm=1), edge("b", "c", blocking=True, comm=1)],
        "b",
    )


def L4(sup="c"):
    """3-node cycle a -> b -> c ~> a (skip), mixed blocking / BUFFER"""
    return spec(
        {"a": node(16, 1), "b": node(16, 1), "c": node(8, 2)},
        [edge("a", "b", blocking=True, comm=1), edge("b", "c", jitter="BUFFER", window=2, comm=1), edge("c", "a", skip=True, comm=1)],
        sup,
    )


# ---- determinism harnesses (C02) -------------------------------------------------------------------
def H1(script_a=(), script_ab=()):
    s = L2(16, 8)
    s["nodes"]["b"]["comp"] = d(2)
    s["nodes"]["a"]["comp"] = d(1, script_a)
    s["edges"][0]["comm"] = d(1, script_ab)
    return s


def H2(jitter="LATEST", script_a=(), script_ab=()):
    s = L1(16, 8, 1, 2, 1, 2, jitter)
    s["nodes"]["a"]["comp"] = d(1, script_a)
    s["edges"][0]["comm"] = d(1, script_ab)
    return s


def H3(script_a=(), script_ab=()):
    """blocking chain a -> b -> c, supervisor c"""
    return spec(
        {"a": node(16, 1, script=script_a), "b": node(16, 1), "c": node(8, 2)},
        [edge("a", "b", blocking=True, comm=1, script=script_ab), edge("b", "c", blocking=True, window=2, comm=1)],
        "c",
    )


def H4(script_a=(), script_ab=()):
    s = L4("c")
    s["nodes"]["a"]["comp"] = d(1, script_a)
    s["edges"][0]["comm"] = d(1, script_ab)
    return s


def H5(script_a=(), script_ac=()):
    """fan-in with rate ratio 1:4"""
    return spec(
        {"a": node(32, 1, script=script_a), "c": node(8, 2), "b": node(8, 2)},
        [edge("a", "b", window=3, comm=1, script=script_ac), edge("c", "b", jitter="BUFFER", comm=1)],
        "b",
    )


def H6():
    """fan-out: one producer read by two consumers with different windows (ring-buffer sizing per producer)"""
    return spec(
        {"a": node(16, 1), "b": node(8, 2), "c": node(4, 2)},
        [edge("a", "b", window=1, comm=1), edge("a", "c", window=3, comm=1), edge("b", "c", window=2, comm=1)],
        "c",
    )


def H6b():
    """fan-out with the demanding reader first"""
    return spec(
        {"a": node(16, 1), "c": node(4, 2), "b": node(8, 2)},
        [edge("a", "c", window=3, comm=1), edge("a", "b", window=1, comm=1), edge("b", "c", window=2, comm=1)],
        "c",
    )


def H8():
    """two producers, each read by two consumers with crossed windows: whichever reader is visited last when the ring
    sizes are collected, one producer's demanding reader is not the last one"""
    return spec(
        {"p": node(16, 1), "q": node(16, 1), "a": node(4, 2), "b": node(4, 2)},
        [edge("p", "a", window=3, comm=1), edge("p", "b", window=1, comm=1), edge("q", "a", window=1, comm=1), edge("q", "b", window=3, comm=1), edge("a", "b", window=1, comm=1)],
        "b",
    )


def H7():
    """rate ratio 16:1 -> more than ten vertices (slots) of one kind per partition"""
    return spec({"a": node(64, 0, script=()), "b": node(4, 2)}, [edge("a", "b", window=3, comm=0), edge("b", "a", skip=True, comm=1)], "b")


# ---- call histories ----------------------------------------------------------------------------------
def episode_forms(kmax=2, override=True):
    forms = []
    for k in range(kmax + 1):
        forms.append([["reset"]] + [["step"]] * k)
    for k in range(1, kmax + 1):
        forms.append([["run"]] * k)
    if override:
        forms.append([["reset"], ["step_override"], ["step"]])
        forms.append([["reset"], ["step"], ["step_override"]])
    return forms


def histories(n_eps=2, kmax=2, override=True):
    """every well-formed history of <= n_eps episodes; episodes separated by stop or (before a reset) nothing; ends in stop"""
    forms = episode_forms(kmax, override)
    out = []
    for n in range(1, n_eps + 1):
        for combo in itertools.product(forms, repeat=n):
            seps_options = []
            for nxt in combo[1:]:
                seps_options.append([True, False] if nxt[0][0] == "reset" else [True])
            for seps in itertools.product(*seps_options):
                h = []
                for i, f in enumerate(combo):
                    h.extend(copy.deepcopy(f))
                    if i < len(combo) - 1 and seps[i]:
                        h.append(["stop"])
                h.append(["stop"])
                out.append(h)
    return out


def hist_name(h):
    m = {"reset": "R", "step": "s", "step_override": "o", "run": "r", "stop": ".", "reset_carry": "C", "idle": "i", "set_delay": "d"}
    return "".join(m[o[0]] for o in h)


# ---- F-async: the finite family of threaded-runtime episodes (DESIGN 4.1) ---------------------------------
def _conn_policies(allow_skip=True, force_skip=False):
    """(blocking, jitter, skip) combinations of one connection"""
    out = []
    for blocking in (False, True):
        for jitter in (("LATEST", "BUFFER") if not blocking else ("LATEST",)):
            for skip in ((True,) if force_skip else ((False, True) if allow_skip else (False,))):
                out.append((blocking, jitter, skip))
    return out


def fasync_bases():
    """base configurations: topology x connection policies x windows x rates x scheduling x advance (nominal delays)"""
    bases = []
    rates2 = [(16, 16), (16, 8), (8, 16), (16, 4)]
    # chain a -> b (supervisor b)
    for (bl, ji, sk) in _conn_policies():
        for w in (1, 2, 3):
            for (ra, rb) in rates2:
                for sched in ("FREQ", "PHASE"):
                    for adv in ((False, True) if bl else (False,)):
                        if w == 3 and sched == "PHASE" and (ra, rb) != (16, 8):
                            continue
                        s = spec({"a": node(ra, 1, sched), "b": node(rb, 2 if rb <= 8 else 1, sched, advance=adv)}, [edge("a", "b", bl, ji, sk, w, 1)], "b")
                        bases.append((f"chain.{'B' if bl else 'N'}{ji[0]}{'s' if sk else ''}.w{w}.{ra}-{rb}.{sched[0]}{'.adv' if adv else ''}", s))
    # chain with a large *expected* communication delay: the consumer's phase lies more than one consumer period plus one
    # producer period after the producer's (phase arithmetic of blocking connections, BUFFER's expected arrival), while the
    # sampled delay is either small (messages arrive long before they are expected) or equally large
    for (bl, ji, sk) in _conn_policies():
        for (ra, rb) in [(16, 16), (32, 8), (8, 16)]:
            for (nom, exp) in [(1, 12), (12, 12), (1, 24)]:
                for adv in ((False, True) if (bl and (ra, rb) == (16, 16)) else (False,)):
                    s = spec({"a": node(ra, 1), "b": node(rb, 1, advance=adv)}, [{"o": "a", "n": "b", "blocking": bl, "jitter": ji, "skip": sk, "window": 2, "comm": d(nom, (), exp)}], "b")
                    bases.append((f"chainX.{'B' if bl else 'N'}{ji[0]}{'s' if sk else ''}.{ra}-{rb}.d{nom}e{exp}{'.adv' if adv else ''}", s))
    # 2-cycle a <-> b, back edge skipped; supervisor either node
    for (bl, ji, sk) in _conn_policies(allow_skip=False):
        for (bl2, ji2, _) in _conn_policies(force_skip=True):
            for (ra, rb) in [(16, 16), (16, 8), (8, 16)]:
                for sched in ("FREQ", "PHASE"):
                    for sup in ("a", "b"):
                        if bl and bl2 and ra != rb:
                            continue  # both legs blocking with different rates: keep to equal rates
                        s = spec(
                            {"a": node(ra, 1, sched), "b": node(rb, 1, sched)},
                            [edge("a", "b", bl, ji, False, 2, 1), edge("b", "a", bl2, ji2, True, 1, 1)],
                            sup,
                        )
                        bases.append((f"cyc2.{'B' if bl else 'N'}{ji[0]}-{'B' if bl2 else 'N'}{ji2[0]}s.{ra}-{rb}.{sched[0]}.sup{sup}", s))
    # fan-in (a, c) -> b
    for (bl, ji, sk) in _conn_policies():
        for (bl2, ji2, sk2) in [(False, "LATEST", False), (True, "LATEST", False), (False, "BUFFER", False)]:
            for (ra, rc, rb) in [(16, 8, 8), (32, 8, 8), (8, 16, 16)]:
                s = spec(
                    {"a": node(ra, 1), "c": node(rc, 1), "b": node(rb, 1 if rb >= 16 else 2)},
                    [edge("a", "b", bl, ji, sk, 2, 1), edge("c", "b", bl2, ji2, sk2, 1, 1)],
                    "b",
                )
                bases.append((f"fan.{'B' if bl else 'N'}{ji[0]}{'s' if sk else ''}-{'B' if bl2 else 'N'}{ji2[0]}.{ra}-{rc}-{rb}", s))
    # fan-in with advance=True on the consumer: one blocking and one non-blocking input (the schedule term must stay)
    for (ra, rc, rb) in [(16, 8, 8), (16, 16, 16)]:
        for (nomb, expb) in [(1, 1), (1, 4)]:  # blocking message arriving at / before its expected time
            for sched in ("FREQ", "PHASE"):
                s = spec(
                    {"a": node(ra, 1), "c": node(rc, 1), "b": node(rb, 1, sched, advance=True)},
                    [{"o": "a", "n": "b", "blocking": True, "jitter": "LATEST", "skip": False, "window": 1, "comm": d(nomb, (), expb)}, edge("c", "b", False, "LATEST", False, 1, 1)],
                    "b",
                )
                bases.append((f"fanadv.{ra}-{rc}-{rb}.d{nomb}e{expb}.{sched[0]}", s))
    # 3-cycle a -> b -> c ~> a
    for (bl, ji, _) in _conn_policies(allow_skip=False):
        for (bl2, ji2, _) in _conn_policies(allow_skip=False):
            for (bl3, ji3, _) in [(False, "LATEST", True), (False, "BUFFER", True)]:
                for sup in ("b", "c"):
                    for sched in ("FREQ", "PHASE"):
                        s = spec(
                            {"a": node(16, 1, sched), "b": node(16, 1, sched), "c": node(8, 2, sched)},
                            [edge("a", "b", bl, ji, False, 1, 1), edge("b", "c", bl2, ji2, False, 2, 1), edge("c", "a", bl3, ji3, True, 1, 1)],
                            sup,
                        )
                        bases.append((f"cyc3.{'B' if bl else 'N'}{ji[0]}-{'B' if bl2 else 'N'}{ji2[0]}-N{ji3[0]}s.{sched[0]}.sup{sup}", s))
    # chain with a blocking and a non-blocking leg a -> b -> c
    for (bl, ji, sk) in [(True, "LATEST", False), (False, "LATEST", False), (False, "BUFFER", False)]:
        for (bl2, ji2, sk2) in _conn_policies(allow_skip=False):
            for adv in (False, True):
                if adv and not bl2:
                    continue
                s = spec(
                    {"a": node(16, 1), "b": node(8, 2), "c": node(16, 1, advance=adv)},
                    [edge("a", "b", bl, ji, sk, 2, 1), edge("b", "c", bl2, ji2, sk2, 2, 1)],
                    "c",
                )
                bases.append((f"chain3.{'B' if bl else 'N'}{ji[0]}-{'B' if bl2 else 'N'}{ji2[0]}{'.adv' if adv else ''}", s))
    return bases


def deviations(s, ticks=(0, 1, 2, 3)):
    """all single deviations of the delay scripts of spec s: list of (label, ('node', name)|('edge', idx), position, value)"""
    devs = []
    for n, nd in s["nodes"].items():
        period = 64 // nd["rate"]
        nom = nd["comp"]["nominal"]
        for p in ticks:
            for v in sorted({0, period + period // 2, 3 * period, 5 * period} - {nom}):
                devs.append((f"{n}@{p}={v}", ("node", n), p, v))
    for i, e in enumerate(s["edges"]):
        rperiod = 64 // s["nodes"][e["n"]]["rate"]
        nom = e["comm"]["nominal"]
        for p in ticks:
            for v in sorted({0, rperiod - 1, rperiod, 2 * rperiod + 1, 3 * rperiod} - {nom}):
                devs.append((f"{e['o']}>{e['n']}@{p}={v}", ("edge", i), p, v))
    return devs


def apply_deviation(s, dev):
    s = copy.deepcopy(s)
    _, (kind, key), p, v = dev
    tgt = s["nodes"][key]["comp"] if kind == "node" else s["edges"][key]["comm"]
    sc = list(tgt.get("script", []))
    while len(sc) <= p:
        sc.append(tgt["nominal"])
    sc[p] = v
    tgt["script"] = sc
    return s


def fasync_family(n_dev=1, tie_variants=True):
    """yields (name, spec) for nominal + every single (n_dev=1) / pair (n_dev=2) of deviations of every base"""
    for bname, b in fasync_bases():
        yield (bname + "|nominal", b)
        devs = deviations(b)
        for dv in devs:
            yield (bname + "|" + dv[0], apply_deviation(b, dv))
        if n_dev >= 2:
            for d1, d2 in itertools.combinations(devs, 2):
                if d1[1] == d2[1] and d1[2] == d2[2]:
                    continue
                yield (bname + "|" + d1[0] + "," + d2[0], apply_deviation(apply_deviation(b, d1), d2))


# ---- decimal family: generic (non-dyadic) rates and Normal delays; only record-level invariants apply ------------
def nd(rate, mu, sigma, sched="FREQ", advance=False):
    return {"rate": rate, "sched": sched, "advance": advance, "comp": {"dist": ["normal", mu, sigma], "nominal": 0}}


def ed(o, n, blocking=False, jitter="LATEST", skip=False, window=1, mu=0.01, sigma=0.01):
    return {"o": o, "n": n, "blocking": blocking, "jitter": jitter, "skip": skip, "window": window, "comm": {"dist": ["normal", mu, sigma], "nominal": 0}}


def decimal_family():
    out = []
    rates = [(10, 7), (7, 10), (20, 4), (13, 13)]
    for (ra, rb) in rates:
        for (bl, ji, sk) in _conn_policies():
            for w in (1, 3):
                for sched in ("FREQ", "PHASE"):
                    s = spec({"a": nd(ra, 0.3 / ra, 0.3 / ra, sched), "b": nd(rb, 0.3 / rb, 0.2 / rb, sched)}, [ed("a", "b", bl, ji, sk, w)], "b")
                    out.append((f"dchain.{'B' if bl else 'N'}{ji[0]}{'s' if sk else ''}.w{w}.{ra}-{rb}.{sched[0]}", s))
    for (ra, rb) in [(10, 7), (7, 10), (13, 13)]:
        for (bl, ji, _) in _conn_policies(allow_skip=False):
            for (bl2, ji2, _) in _conn_policies(force_skip=True):
                if bl and bl2 and ra != rb:
                    continue
                s = spec({"a": nd(ra, 0.2 / ra, 0.2 / ra), "b": nd(rb, 0.2 / rb, 0.2 / rb)}, [ed("a", "b", bl, ji, False, 2), ed("b", "a", bl2, ji2, True, 1)], "b")
                out.append((f"dcyc2.{'B' if bl else 'N'}{ji[0]}-{'B' if bl2 else 'N'}{ji2[0]}s.{ra}-{rb}", s))
    for (bl, ji, sk) in _conn_policies():
        s = spec({"a": nd(20, 0.01, 0.01), "c": nd(7, 0.03, 0.03), "b": nd(10, 0.02, 0.02)}, [ed("a", "b", bl, ji, sk, 2), ed("c", "b", False, "BUFFER", False, 1)], "b")
        out.append((f"dfan.{'B' if bl else 'N'}{ji[0]}{'s' if sk else ''}", s))
    return out
