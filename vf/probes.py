"""Probe nodes, scripted delay distributions and spec -> rex node graph construction.

A *spec* is a plain JSON-able dict (all times in units of U = 1/64 s, rates powers of two: the dyadic lattice on which
every quantity rex computes is exact):

  {"nodes": {"a": {"rate": 16, "sched": "FREQ"|"PHASE", "advance": false,
                   "comp": {"nominal": 1, "script": [1, 20, 1], "expected": 1}}, ...},
   "edges": [{"o": "a", "n": "b", "blocking": false, "jitter": "LATEST"|"BUFFER", "skip": false, "window": 1,
              "comm": {"nominal": 1, "script": [], "expected": 1}}, ...],
   "supervisor": "b"}
"""
import numpy as onp

U = 1.0 / 64.0

_FNV = 16777619
_M32 = 0xFFFFFFFF


# ------------------------------------------------------------------------------------------------
# pure-python reference of the probe hash (used by the reference models; no numpy wrap-around subtleties)
# ------------------------------------------------------------------------------------------------
def py_mix(h, v):
    h = ((h ^ (v & _M32)) * _FNV) & _M32
    h ^= h >> 15
    return h


def f32_bits(x):
    return int(onp.array(x, dtype=onp.float32).view(onp.uint32))


def py_next_rng(rng):
    return tuple(((int(r) * 1664525) + 1013904223 + i) & _M32 for i, r in enumerate(rng))


def py_probe_hash(pid, p, eps, seq, ts_bits, rng, state_h, inputs):
    """inputs: list (sorted by input name) of lists of window entries (data_h, seq, ts_sent_bits, ts_recv_bits)."""
    h = (pid * 2654435761 + 12345) & _M32
    for v in (p, eps & _M32, seq & _M32, ts_bits, rng[0], rng[1], state_h):
        h = py_mix(h, v)
    for win in inputs:
        for (dh, s, b1, b2) in win:
            valid = s >= 0
            h = py_mix(h, dh)
            h = py_mix(h, (s if valid else -1) & _M32)
            h = py_mix(h, b1 if valid else 0)
            h = py_mix(h, b2 if valid else 0)
    return h


def py_default_out_h(pid):
    return (pid * 40503 + 7) & _M32


def py_init_state_h(pid):
    return (pid * 69069 + 1) & _M32


def py_param(pid):
    return (pid * 1234577 + 99) & _M32


def py_override_out_h(pid, eps, seq):
    return ((pid * 7919 + eps * 104729 + seq * 15485863) ^ 0x5BD1E995) & _M32


# ------------------------------------------------------------------------------------------------
# rex-side classes (created lazily so that importing this module does not import jax)
# ------------------------------------------------------------------------------------------------
_CLS = {}


def classes():
    if _CLS:
        return _CLS
    import jax
    import jax.numpy as jnp
    from flax import struct

    from rex.base import Base, DelayDistribution
    from rex.node import BaseNode

    @struct.dataclass
    class POut(Base):
        h: jax.Array  # uint32[1]
        tag: jax.Array  # int32[3] = (producer id, eps, seq)

    @struct.dataclass
    class PState(Base):
        h: jax.Array  # uint32[1]
        n: jax.Array  # int32[1] number of executed steps

    @struct.dataclass
    class PParams(Base):
        p: jax.Array  # uint32[1]

    @struct.dataclass
    class ScriptedDist(DelayDistribution):
        """The environment's answers: the next `shape` scripted delays, then the nominal value for ever."""

        script: jax.Array
        idx: jax.Array
        nominal: float = struct.field(pytree_node=False, default=0.0)
        LEN = 16

        @classmethod
        def create(cls, script, nominal):
            # fixed length (same shapes for every spec => one XLA compilation per process); padded with the nominal value
            sc = list(script)
            assert len(sc) <= cls.LEN, "script too long"
            sc = sc + [nominal] * (cls.LEN - len(sc))
            return cls(script=onp.asarray(sc, onp.float32), idx=onp.int32(0), nominal=float(nominal))

        def reset(self, rng):
            return self.replace(idx=jnp.int32(0))

        def sample(self, shape=None):
            scalar = shape in (None, ())
            n = 1 if scalar else int(shape if isinstance(shape, int) else shape[0])
            L = self.script.shape[0]
            pos = self.idx + jnp.arange(n)
            vals = jnp.where(pos < L, self.script[jnp.clip(pos, 0, L - 1)], jnp.float32(self.nominal))
            return self.replace(idx=self.idx + n), (vals[0] if scalar else vals)

        def quantile(self, q):
            return self.nominal

        def mean(self):
            return self.nominal

        def pdf(self, x):
            return 1.0

    class ProbeNode(BaseNode):
        """step = integer hash of everything the step may legitimately depend on (see DESIGN 3.3)."""

        def __init__(self, *args, pid=0, xp="np", trace=None, wall_script=None, vtime=None, **kw):
            super().__init__(*args, **kw)
            self.pid = pid
            self.xp = xp
            self.trace = trace  # list (host side) or None
            self.wall_script = wall_script  # (script, nominal) in seconds: virtual time a step consumes under WALL_CLOCK
            self.vtime = vtime
            self._wall_k = 0

        def startup(self, graph_state, timeout=None):
            # a slow start-up hook (e.g. homing a robot): consumes virtual wall time before the episode clock starts
            if getattr(self, "startup_sleep", 0) and self.vtime is not None:
                self.vtime.sleep(self.startup_sleep)
            return True

        def init_params(self, rng=None, graph_state=None):
            return PParams(p=onp.array([py_param(self.pid)], dtype=onp.uint32))

        def init_state(self, rng=None, graph_state=None):
            return PState(h=onp.array([py_init_state_h(self.pid)], dtype=onp.uint32), n=onp.array([0], dtype=onp.int32))

        def init_output(self, rng=None, graph_state=None):
            return POut(h=onp.array([py_default_out_h(self.pid)], dtype=onp.uint32), tag=onp.array([self.pid, -1, -1], dtype=onp.int32))

        # -- numpy twin -----------------------------------------------------------------------
        def _step_np(self, ss):
            with onp.errstate(over="ignore"):
                u32 = onp.uint32
                asu = lambda x: onp.asarray(x).astype(onp.int64).astype(u32).reshape(-1)[:1]  # noqa
                bits = lambda x: onp.asarray(x, dtype=onp.float32).reshape(-1).view(u32)  # noqa

                def mix(h, v):
                    h = (h ^ v) * u32(_FNV)
                    return h ^ (h >> u32(15))

                rng = onp.asarray(ss.rng).astype(u32)
                h = onp.array([(self.pid * 2654435761 + 12345) & _M32], dtype=u32)
                for v in (onp.asarray(ss.params.p), asu(ss.eps), asu(ss.seq), bits(ss.ts)[:1], rng[:1], rng[1:2], onp.asarray(ss.state.h)):
                    h = mix(h, v.astype(u32))
                ins = []
                for name in sorted(ss.inputs.keys()):
                    i = ss.inputs[name]
                    seq = onp.asarray(i.seq).astype(onp.int64)
                    dh = onp.asarray(i.data.h).astype(u32).reshape(seq.shape[0], -1)[:, 0]
                    b1, b2 = bits(i.ts_sent), bits(i.ts_recv)
                    for w in range(seq.shape[0]):
                        valid = seq[w] >= 0
                        h = mix(h, dh[w : w + 1])
                        h = mix(h, onp.array([seq[w] if valid else -1]).astype(onp.int64).astype(u32))
                        h = mix(h, b1[w : w + 1] if valid else onp.zeros(1, u32))
                        h = mix(h, b2[w : w + 1] if valid else onp.zeros(1, u32))
                    if self.trace is not None:
                        ins.append((name, seq.tolist(), onp.asarray(i.ts_sent).tolist(), onp.asarray(i.ts_recv).tolist(), dh.tolist(), onp.asarray(i.data.tag).reshape(seq.shape[0], -1).tolist()))
                new_rng = rng * u32(1664525) + u32(1013904223) + onp.arange(rng.shape[0]).astype(u32)
                eps, seq_ = int(onp.asarray(ss.eps)), int(onp.asarray(ss.seq))
                if self.trace is not None:
                    import threading

                    self.trace.append(
                        dict(node=self.name, eps=eps, seq=seq_, ts=float(onp.asarray(ss.ts)), rng=rng.tolist(), state_h=int(onp.asarray(ss.state.h)[0]),
                             state_n=int(onp.asarray(ss.state.n)[0]), p=int(onp.asarray(ss.params.p)[0]), inputs=ins, out_h=int(h[0]), thread=threading.current_thread().name)
                    )
                if self.wall_script is not None and self.vtime is not None:
                    sc, nom = self.wall_script
                    d = sc[self._wall_k] if self._wall_k < len(sc) else nom
                    self._wall_k += 1
                    self.vtime.sleep(d)
                new_state = PState(h=h.copy(), n=(onp.asarray(ss.state.n) + 1).astype(onp.int32))
                out = POut(h=h.copy(), tag=onp.array([self.pid, eps, seq_], dtype=onp.int32))
                return ss.replace(rng=new_rng, state=new_state), out

        # -- jax twin (bit-identical integer arithmetic) ------------------------------------------------
        def _step_jnp(self, ss):
            u32 = jnp.uint32
            asu = lambda x: jnp.asarray(x).astype(jnp.int32).astype(u32).reshape(-1)[:1]  # noqa
            bits = lambda x: jax.lax.bitcast_convert_type(jnp.asarray(x, dtype=jnp.float32).reshape(-1), u32)  # noqa

            def mix(h, v):
                h = (h ^ v) * u32(_FNV)
                return h ^ (h >> u32(15))

            rng = jnp.asarray(ss.rng).astype(u32)
            h = jnp.array([(self.pid * 2654435761 + 12345) & _M32], dtype=u32)
            for v in (ss.params.p, asu(ss.eps), asu(ss.seq), bits(ss.ts)[:1], rng[:1], rng[1:2], ss.state.h):
                h = mix(h, jnp.asarray(v).astype(u32))
            ins = []
            for name in sorted(ss.inputs.keys()):
                i = ss.inputs[name]
                seq = jnp.asarray(i.seq).astype(jnp.int32)
                W = seq.shape[0]
                dh = jnp.asarray(i.data.h).astype(u32).reshape(W, -1)[:, 0]
                b1, b2 = bits(i.ts_sent), bits(i.ts_recv)
                for w in range(W):
                    valid = seq[w] >= 0
                    h = mix(h, dh[w : w + 1])
                    h = mix(h, jnp.where(valid, seq[w], -1).astype(u32).reshape(1))
                    h = mix(h, jnp.where(valid, b1[w], u32(0)).reshape(1))
                    h = mix(h, jnp.where(valid, b2[w], u32(0)).reshape(1))
                ins.append((name, seq, jnp.asarray(i.ts_sent), jnp.asarray(i.ts_recv), dh, jnp.asarray(i.data.tag).reshape(W, -1)))
            new_rng = rng * u32(1664525) + u32(1013904223) + jnp.arange(rng.shape[0]).astype(u32)
            if self.trace is not None:
                trace, nm = self.trace, self.name
                names = [x[0] for x in ins]

                def _cb(eps, seq, ts, rng_, sh, sn, p, out_h, *flat):
                    ins_ = []
                    for k, n_ in enumerate(names):
                        s_, a_, b_, d_, t_ = flat[5 * k : 5 * k + 5]
                        ins_.append((n_, onp.asarray(s_).tolist(), onp.asarray(a_).tolist(), onp.asarray(b_).tolist(), onp.asarray(d_).tolist(), onp.asarray(t_).tolist()))
                    trace.append(dict(node=nm, eps=int(eps), seq=int(seq), ts=float(ts), rng=onp.asarray(rng_).tolist(), state_h=int(sh[0]), state_n=int(sn[0]),
                                      p=int(p[0]), inputs=ins_, out_h=int(out_h[0]), thread="xla"))

                flat = [y for x in ins for y in x[1:]]
                jax.experimental.io_callback(_cb, None, jnp.asarray(ss.eps), jnp.asarray(ss.seq), jnp.asarray(ss.ts), rng, ss.state.h, ss.state.n, ss.params.p, h, *flat, ordered=True)
            new_state = PState(h=h, n=(ss.state.n + 1).astype(jnp.int32))
            out = POut(h=h, tag=jnp.stack([jnp.int32(self.pid), jnp.asarray(ss.eps).astype(jnp.int32).reshape(()), jnp.asarray(ss.seq).astype(jnp.int32).reshape(())]))
            return ss.replace(rng=new_rng, state=new_state), out

        def step(self, ss):
            return self._step_np(ss) if self.xp == "np" else self._step_jnp(ss)

    import jax.experimental  # noqa  (io_callback)

    _CLS.update(POut=POut, PState=PState, PParams=PParams, ScriptedDist=ScriptedDist, ProbeNode=ProbeNode)
    return _CLS


def override_output(pid, eps, seq):
    """Output handed to step(gs, ss, output) by the override driver (never computed through node.step)."""
    C = classes()
    return C["POut"](h=onp.array([py_override_out_h(pid, eps, seq)], dtype=onp.uint32), tag=onp.array([pid, eps, seq], dtype=onp.int32))


def node_ids(spec):
    return {n: i + 1 for i, n in enumerate(sorted(spec["nodes"]))}


def make_dist(d, kind="scripted"):
    C = classes()
    if "trainable" in d:  # trainable (zero-order hold) delay: [delay, min, max] in units of U
        from rex.base import TrainableDist

        dl, lo, hi = d["trainable"]
        return TrainableDist.create(delay=dl * U, min=lo * U, max=hi * U, interp=d.get("interp", "zoh"))
    if "dist" in d:  # decimal family: a real (static) distribution, times in seconds
        import distrax

        from rex.base import StaticDist

        kind_, mu, sigma = d["dist"]
        assert kind_ == "normal"
        return StaticDist.create(distrax.Normal(loc=mu, scale=sigma))
    sc = [x * U for x in d.get("script", [])]
    return C["ScriptedDist"].create(sc, d["nominal"] * U)


def build_nodes(spec, xp="np", trace=None, clock="SIM", vtime=None):
    """Returns (nodes dict in spec order, supervisor node)."""
    import rex.constants as const

    C = classes()
    ids = node_ids(spec)
    nodes = {}
    for name, nd in spec["nodes"].items():
        comp = nd["comp"]
        kw = dict(
            rate=nd["rate"],
            delay=(comp.get("expected", comp["nominal"]) * U) if "dist" not in comp else comp["dist"][1],
            delay_dist=make_dist(comp),
            advance=bool(nd.get("advance", False)),
            scheduling=const.Scheduling.PHASE if nd.get("sched", "FREQ") == "PHASE" else const.Scheduling.FREQUENCY,
        )
        wall = None
        if clock == "WALL":
            wall = ([x * U for x in comp.get("script", [])], comp["nominal"] * U)
        nodes[name] = C["ProbeNode"](name, pid=ids[name], xp=xp, trace=trace, wall_script=wall, vtime=vtime, **kw)
        nodes[name].startup_sleep = float(nd.get("startup_sleep", 0.0)) if clock == "WALL" else 0.0
    for e in spec["edges"]:
        comm = e["comm"]
        nodes[e["n"]].connect(
            nodes[e["o"]],
            blocking=bool(e.get("blocking", False)),
            delay=(comm["trainable"][1] * U) if "trainable" in comm else ((comm.get("expected", comm["nominal"]) * U) if "dist" not in comm else comm["dist"][1]),
            delay_dist=make_dist(comm),
            window=int(e.get("window", 1)),
            skip=bool(e.get("skip", False)),
            jitter=const.Jitter.BUFFER if e.get("jitter", "LATEST") == "BUFFER" else const.Jitter.LATEST,
            name=e.get("name"),  # shadow input name (None = the producer's name); used by C14 sources only
        )
    return nodes, nodes[spec["supervisor"]]
