"""O1: the property text of C03 / C04 evaluated on one recorded episode (DESIGN 4.3).

Everything is decided on the *recorded* floats (the values rex took its decisions on), so no tolerance is needed under
the simulated clock; `exact=False` (wall clock) relaxes the arithmetic identities to 1e-9.
record = summarize_record() dict; spec = graph spec (connection policies, rates, windows).
"""
from vf.probes import f32_bits


def _edges_into(spec, n):
    return [e for e in spec["edges"] if e["n"] == n]


def _close(a, b, exact):
    return a == b if exact else abs(a - b) <= 1e-9


def c03_violations(spec, record, exact=True, sup_done=None, max_err=6):
    """I1-I4. Returns list of (signature, detail)."""
    v = []
    from vf.probes import node_ids

    ids = node_ids(spec)

    def err(sig, *d):
        if len(v) < max_err:
            v.append((sig, d))

    for n, nr in record.items():
        st = nr["steps"]
        K = len(st["seq"])
        # I1 steps: gap-free from 0, never overlap
        if st["seq"] != list(range(K)):
            err("I1:seq-gap", n, st["seq"][:12])
            continue
        for k in range(K):
            if st["delay"][k] < 0:
                err("I1:negative-delay", n, k)
            if not _close(st["ts_end"][k], st["ts_start"][k] + st["delay"][k], exact):
                err("I1:end!=start+delay", n, k, st["ts_start"][k], st["delay"][k], st["ts_end"][k])
            if k > 0 and st["ts_start"][k] < st["ts_end"][k - 1]:
                err("I1:overlap", n, k, st["ts_start"][k], st["ts_end"][k - 1])
        for e in _edges_into(spec, n):
            o = e["o"]
            ms = nr["inputs"].get(o)
            if ms is None:
                err("I2:no-input-record", n, o)
                continue
            M = len(ms["seq_out"])
            kind = ("blocking" if e.get("blocking") else e.get("jitter", "LATEST")) + ("+skip" if e.get("skip") else "")
            # I2: exactly once and in order up to the last consumed message
            if ms["seq_out"] != list(range(M)):
                err("I2:loss-dup-reorder", n, o, ms["seq_out"][:16])
                continue
            po = record[o]["steps"]
            for j in range(M):
                # rex quantises receive times to 1 us: recv = round(max(sent + delay, prev), 6) >= round(sent, 6)
                if ms["ts_recv"][j] < (round(ms["ts_sent"][j], 6) if exact else ms["ts_sent"][j] - 1e-6):
                    err("I2:recv<sent", n, o, j, ms["ts_recv"][j], ms["ts_sent"][j])
                if j > 0 and ms["ts_recv"][j] < ms["ts_recv"][j - 1]:
                    err("I2:fifo", n, o, j)
                if j > 0 and ms["seq_in"][j] < ms["seq_in"][j - 1]:
                    err("I2:seq_in-order", n, o, j)
                if ms["seq_out"][j] < len(po["seq"]) and not _close(po["ts_end"][ms["seq_out"][j]], ms["ts_sent"][j], exact):
                    err("I2:ts_sent!=ts_end", n, o, j)
                t = int(ms["seq_in"][j])
                if not (0 <= t < K):
                    err("I3:seq_in-out-of-range", n, o, j, t, K)
                    continue
                r = ms["ts_recv"][j]
                skip = bool(e.get("skip", False))
                if not e.get("blocking", False):
                    if e.get("jitter", "LATEST") == "BUFFER":
                        texp = ms["seq_out"][j] / spec["nodes"][o]["rate"] + nr["in_phase"][o]
                        elig = lambda ts: ((r < ts) if skip else (r <= ts)) and texp <= ts  # noqa
                    else:
                        elig = lambda ts: (r < ts) if skip else (r <= ts)  # noqa
                    if not elig(st["ts_start"][t]):
                        err(f"I3:consumed-before-arrival:{kind}", n, o, j, "recv", r * 64, "step", t, "start", st["ts_start"][t] * 64)
                    # the first eligible step, not earlier than the step of the previous message (FIFO)
                    lo = int(ms["seq_in"][j - 1]) if j > 0 else 0
                    first = next((tt for tt in range(lo, K) if elig(st["ts_start"][tt])), None)
                    if first != t:
                        err(f"I3:wrong-step:{kind}", n, o, j, "recv", r * 64, "consumed by", t, "first eligible", first)
                else:
                    ph_n, ph_o = round(nr["phase"], 6), round(record[o]["phase"], 6)
                    t_out = round(ms["seq_out"][j] / spec["nodes"][o]["rate"] + ph_o, 6)
                    rate_n = spec["nodes"][n]["rate"]

                    def slot(tt):
                        hi = round(tt / rate_n + ph_n, 6)
                        lo_ = round((tt - 1) / rate_n + ph_n, 6)
                        if tt == 0:
                            return (t_out < hi) if skip else (t_out <= hi)
                        return (lo_ <= t_out < hi) if skip else (lo_ < t_out <= hi)

                    if not slot(t):
                        err(f"I3:wrong-step:{kind}", n, o, j, "scheduled out", t_out * 64, "consumed by", t)
                    if r > st["ts_start"][t]:
                        err(f"I3:consumed-before-arrival:{kind}", n, o, j, r * 64, st["ts_start"][t] * 64)
            # no message that should have been consumed by a recorded step is missing at the tail:
            # (non-blocking) the next message of the producer, if it was produced and is eligible for the last recorded
            # step, must be in the list -- checked through the windows (I4) and through C02's agreement; here only
            # the blocking case, where the expected set is static:
            if e.get("blocking", False) and K > 0:
                ph_n, ph_o = round(nr["phase"], 6), round(record[o]["phase"], 6)
                rate_n, rate_o = spec["nodes"][n]["rate"], spec["nodes"][o]["rate"]
                skip = bool(e.get("skip", False))
                exp = []
                i = 0
                hi_last = round((K - 1) / rate_n + ph_n, 6)
                while True:
                    t_out = round(i / rate_o + ph_o, 6)
                    if t_out > hi_last or (skip and t_out >= hi_last):
                        break
                    exp.append(i)
                    i += 1
                if ms["seq_out"] != exp:
                    err("I3:blocking-set", n, o, ms["seq_out"][:16], exp[:16])
            # I4 windows: the most recent consumed messages, oldest first
            if "inputs" in st and o in st["inputs"]:
                W = int(e.get("window", 1))
                w = st["inputs"][o]
                Kw = K if not (sup_done is not None and n == spec["supervisor"]) else min(K, sup_done + 1)
                for k in range(Kw):
                    got_idx = [j for j in range(M) if ms["seq_in"][j] <= k][-W:]
                    pad = W - len(got_idx)
                    seqs = w["seq"][k]
                    if len(seqs) != W:
                        err("I4:window-size", n, o, k, len(seqs), W)
                        break
                    bad = any(s >= 0 for s in seqs[:pad])
                    for x, j in enumerate(got_idx):
                        if seqs[pad + x] != ms["seq_out"][j]:
                            bad = True
                        elif f32_bits(w["ts_sent"][k][pad + x]) != f32_bits(ms["ts_sent"][j]) or f32_bits(w["ts_recv"][k][pad + x]) != f32_bits(ms["ts_recv"][j]):
                            err("I4:window-ts", n, o, k, w["ts_recv"][k], [ms["ts_recv"][jj] for jj in got_idx])
                        elif "out_h" in po and ms["seq_out"][j] < len(po["out_h"]) and w["data_h"][k][pad + x] != po["out_h"][ms["seq_out"][j]]:
                            err("I4:window-payload", n, o, k, w["data_h"][k][pad + x], po["out_h"][ms["seq_out"][j]])
                        elif "data_tag" in w and list(w["data_tag"][k][pad + x][::2]) != [ids[o], ms["seq_out"][j]]:
                            # every leaf of the payload belongs to that message: (producer id, ., seq) of the tag leaf
                            err("I4:window-payload-leaf", n, o, k, w["data_tag"][k][pad + x], [ids[o], "eps", ms["seq_out"][j]])
                    if bad:
                        err("I4:window-content", n, o, k, seqs, [ms["seq_out"][j] for j in got_idx])
                        break
    return v


def c04_violations(spec, record, exact=True, max_err=6):
    """I5: the start-time law on the recorded values. Uses rex's own phases (record info) for the schedule."""
    v = []

    def err(sig, *d):
        if len(v) < max_err:
            v.append((sig, d))

    for n, nr in record.items():
        st = nr["steps"]
        K = len(st["seq"])
        nd = spec["nodes"][n]
        ins = _edges_into(spec, n)
        only_blocking = bool(nd.get("advance", False)) and all(e.get("blocking", False) for e in ins)
        D = 0.0
        for k in range(K):
            sched = round(k / nd["rate"] + nr["phase"], 6)
            if st["ts_scheduled"][k] != sched:
                err("I5:scheduled", n, k, st["ts_scheduled"][k] * 64, sched * 64)
            prev_end = st["ts_end"][k - 1] if k > 0 else 0.0
            tmax = 0.0
            for e in ins:
                if e.get("blocking", False):
                    ms = nr["inputs"][e["o"]]
                    sel = [ms["ts_recv"][j] for j in range(len(ms["seq_in"])) if ms["seq_in"][j] == k]
                    if sel:
                        tmax = max(tmax, max(sel))
            cands = [tmax, prev_end] if only_blocking else [tmax, prev_end, sched + D]
            exp = max(cands)
            if not _close(st["ts_start"][k], exp, exact):
                which = "advance" if only_blocking else nd.get("sched", "FREQ")
                err(f"I5:start-law:{which}", n, k, "start", st["ts_start"][k] * 64, "expected", exp * 64, "max of (tmax, prev_end, sched+drift)", [c * 64 for c in cands])
            if not only_blocking and st["ts_start"][k] < sched:
                err("I5:start-before-schedule", n, k)
            if nd.get("sched", "FREQ") == "FREQ":
                D = max(D, prev_end - sched)
                if k > 0 and not any(e.get("blocking", False) for e in ins) and st["ts_start"][k] - st["ts_start"][k - 1] < 1.0 / nd["rate"] - (0 if exact else 1e-9):
                    err("I5:freq-spacing", n, k, st["ts_start"][k - 1] * 64, st["ts_start"][k] * 64)
            else:
                D = 0.0
                if prev_end <= sched and tmax <= sched and not only_blocking and st["ts_start"][k] != sched:
                    err("I5:phase-grid", n, k, st["ts_start"][k] * 64, sched * 64)
    return v


def c04_script_violations(spec, record, max_err=6):
    """ends one *sampled* computation delay later; reaches each consumer one *sampled* communication delay later (FIFO)."""
    v = []
    U = 1.0 / 64.0

    def sample(dd, i):
        s = dd.get("script", [])
        return (s[i] if i < len(s) else dd["nominal"]) * U

    for n, nr in record.items():
        st = nr["steps"]
        for k in range(len(st["seq"])):
            if st["delay"][k] != sample(spec["nodes"][n]["comp"], k):
                v.append(("I5:comp-delay-sample", (n, k, st["delay"][k] * 64, sample(spec["nodes"][n]["comp"], k) * 64)))
        for e in _edges_into(spec, n):
            ms = nr["inputs"].get(e["o"])
            if ms is None:
                continue
            prev = 0.0
            for j, i in enumerate(ms["seq_out"]):
                exp = round(max(ms["ts_sent"][j] + sample(e["comm"], i), prev), 6)
                if ms["ts_recv"][j] != exp:
                    v.append(("I5:comm-delay-sample", (n, e["o"], i, ms["ts_recv"][j] * 64, exp * 64)))
                prev = ms["ts_recv"][j]
        if len(v) >= max_err:
            break
    return v[:max_err]
