"""C12 reference model: an independent plain-Python graph generator and the per-vertex / per-edge oracle.

No rex (and no jax) imports here.  A *spec* is a JSON-able dict (all times in seconds):

  {"lattice": "dyadic" | "generic",
   "nodes": [{"name": "a", "rate": 16, "delay": <expected comp delay, used for the phase>, "comp": DIST}, ...],
   "edges": [{"o": "a", "n": "b", "skip": false, "window": 1, "delay": <expected comm delay>, "comm": DIST}, ...]}

  DIST = {"k": "det", "v": x} | {"k": "none"} (rex default: no delay) | {"k": "two", "v": [x1, x2], "p": [p1, p2]}
       | {"k": "normal", "mu": m, "sigma": s} | {"k": "mix", "mu": [..], "sigma": [..], "p": [..]}
       | {"k": "train", "min": a, "max": b, "delay": d}   (connections only; generation must use `min`)

A *graph* (as seen by this module) is a plain dict of numpy arrays with a leading episode axis:
  {"vertices": {name: {"seq": int[E, L], "ts_start": float[E, L], "ts_end": float[E, L]}},
   "edges": {"o>n": {"seq_out": int[E, M], "seq_in": int[E, M], "ts_recv": float[E, M]}}}

On the dyadic lattice (rates powers of two, all delays multiples of 1/64 s, horizons < 4 s) every quantity rex computes
in float32 is exact, so every comparison below is exact (zero tolerance).  On the generic members one float32 addition
at magnitude < 4 s is off by at most half an ulp = 1.2e-7 and the float32 image of a decimal delay by < 1e-8, hence
TOL = 1e-6 for the *values* (spacing, delay samples); all *decisions* (>=, >, > ts_max) are re-evaluated on the recorded
floats themselves and need no tolerance.
"""
import numpy as onp

TOL = 1e-6
NSIG = 8.0  # a Normal sample further than 8 sigma from its mean: p < 1e-15 per sample


def ekey(o, n):
    return f"{o}>{n}"


# ------------------------------------------------------------------------------------------------
# configuration helpers
# ------------------------------------------------------------------------------------------------
def is_deterministic(d):
    return d["k"] in ("det", "none", "train")


def det_value(d):
    if d["k"] == "det":
        return float(d["v"])
    if d["k"] == "none":
        return 0.0
    if d["k"] == "train":
        return float(d["min"])  # generate_graphs documents: "assume the minimal delay"
    raise ValueError(d)


def spec_is_deterministic(spec):
    return all(is_deterministic(n["comp"]) for n in spec["nodes"]) and all(is_deterministic(e["comm"]) for e in spec["edges"])


def ref_phases(spec):
    """phase(n) = longest path of expected delays over the non-skipped inputs (0 for a source)."""
    nd = {n["name"]: n for n in spec["nodes"]}
    ins = {n: [] for n in nd}
    for e in spec["edges"]:
        if not e["skip"]:
            ins[e["n"]].append(e)
    memo = {}

    def ph(n, depth=0):
        if depth > len(nd):
            raise ValueError("algebraic loop in spec")
        if n not in memo:
            memo[n] = max([0.0] + [ph(e["o"], depth + 1) + float(nd[e["o"]]["delay"]) + float(e["delay"]) for e in ins[n]])
        return memo[n]

    return {n: ph(n) for n in nd}


def in_support(d, x, exact):
    """Is x a possible sample of DIST d (after rex' clip at 0)?"""
    if x < 0:
        return False
    k = d["k"]
    if k in ("det", "none", "train"):
        v = det_value(d)
        return x == v if exact else abs(x - v) <= TOL
    if k == "two":
        return any((x == float(v)) if exact else abs(x - float(v)) <= TOL for v in d["v"])
    if k == "normal":
        lo, hi = d["mu"] - NSIG * d["sigma"], d["mu"] + NSIG * d["sigma"]
        return max(0.0, lo) - TOL <= x <= max(0.0, hi) + TOL
    if k == "mix":
        lo = min(m - NSIG * s for m, s in zip(d["mu"], d["sigma"]))
        hi = max(m + NSIG * s for m, s in zip(d["mu"], d["sigma"]))
        return max(0.0, lo) - TOL <= x <= max(0.0, hi) + TOL
    raise ValueError(d)


# ------------------------------------------------------------------------------------------------
# the reference generator (deterministic members): one loop per node, one loop per connection
# ------------------------------------------------------------------------------------------------
def ref_timeline(phase, rate, comp, ts_max):
    """All steps of a node that finish no later than ts_max: [(start, end), ...]."""
    out = []
    t = float(phase)
    period = 1.0 / rate
    while True:
        end = t + comp
        if end > ts_max:
            break  # every later step starts at or after this end, hence also ends after ts_max
        out.append((t, end))
        t = max(end, t + period)
    return out


def ref_assign(sender, receiver, comm, skip):
    """sender/receiver: [(start, end)] of the valid steps.  Returns [(seq_out, seq_in, ts_recv)] for every sent message."""
    out = []
    for i, (_, end) in enumerate(sender):
        recv = end + comm
        seq_in = -1
        for j, (start, _) in enumerate(receiver):
            if (start > recv) if skip else (start >= recv):
                seq_in = j
                break
        out.append((i, seq_in, recv))
    return out


def ref_generate(spec, ts_max):
    """Deterministic members only.  Returns {"vertices": {n: [(start, end)]}, "edges": {"o>n": [(seq_out, seq_in, recv)]}}."""
    assert spec_is_deterministic(spec)
    ph = ref_phases(spec)
    V = {n["name"]: ref_timeline(ph[n["name"]], n["rate"], det_value(n["comp"]), ts_max) for n in spec["nodes"]}
    Ed = {ekey(e["o"], e["n"]): ref_assign(V[e["o"]], V[e["n"]], det_value(e["comm"]), e["skip"]) for e in spec["edges"]}
    return dict(vertices=V, edges=Ed)


# ------------------------------------------------------------------------------------------------
# the oracle
# ------------------------------------------------------------------------------------------------
class Findings:
    def __init__(self):
        self.items = []  # (signature, detail)
        self.n = dict(vertices=0, edges=0, comparisons=0, ties=0, overtaken=0, nonmonotone_recv=0, fifo_held=0, unreceived=0, masked_slots=0,
                      ref_compared=0, overrun_steps=0)

    def bad(self, sig, **detail):
        if sum(1 for s, _ in self.items if s == sig) < 3:
            self.items.append((sig, detail))
        else:
            self.items.append((sig, None))

    def cmp(self, k=1):
        self.n["comparisons"] += k


def valid_steps(v, e):
    """([(start, end)] of the valid steps of episode e, their number)."""
    seq = v["seq"][e]
    K = int((seq >= 0).sum())
    return [(float(v["ts_start"][e][k]), float(v["ts_end"][e][k])) for k in range(K)], K


def check_vertices(spec, node, v, e, ts_max, fd, where):
    """Invariants of one node's vertex arrays in episode e.  Returns the list of valid (start, end)."""
    exact = spec["lattice"] == "dyadic"
    seq = v["seq"][e]
    ts_s, ts_e = v["ts_start"][e], v["ts_end"][e]
    L = len(seq)
    if not (len(ts_s) == L and len(ts_e) == L and L >= 1):
        fd.bad("vertex:shape", where=where, node=node["name"], shapes=[len(seq), len(ts_s), len(ts_e)])
        return []
    K = int((seq >= 0).sum())
    fd.n["masked_slots"] += L - K
    fd.cmp(L)
    if [int(s) for s in seq] != list(range(K)) + [-1] * (L - K):
        fd.bad("vertex:numbering", where=where, node=node["name"], seq=[int(s) for s in seq])
        return []
    period = 1.0 / node["rate"]
    ph = ref_phases(spec)[node["name"]]
    steps = [(float(ts_s[k]), float(ts_e[k])) for k in range(K)]
    fd.n["vertices"] += K
    if L >= 1:
        # the first slot is the node's first step whether or not it fits in the horizon
        fd.cmp()
        s0 = float(ts_s[0])
        if (s0 != float(onp.float32(ph))) if exact else (abs(s0 - ph) > TOL):
            fd.bad("vertex:first-start-not-phase", where=where, node=node["name"], start=s0, phase=ph)
    for k, (s, t) in enumerate(steps):
        d = t - s
        fd.cmp(3)
        if not t >= s:
            fd.bad("vertex:negative-duration", where=where, node=node["name"], k=k, start=s, end=t)
        elif not in_support(node["comp"], d, exact):
            fd.bad("vertex:duration-not-a-sample", where=where, node=node["name"], k=k, start=s, end=t, duration=d, dist=node["comp"])
        if t > ts_max:
            fd.bad("vertex:ends-after-horizon", where=where, node=node["name"], k=k, end=t, ts_max=ts_max)
        if k + 1 < K:
            s1 = steps[k + 1][0]
            fd.cmp(2)
            if not s1 >= t:
                fd.bad("vertex:overlap", where=where, node=node["name"], k=k, end=t, next_start=s1)
            if (s1 - s < period) if exact else (s1 - s < period - TOL):
                fd.bad("vertex:spacing-below-period", where=where, node=node["name"], k=k, start=s, next_start=s1, period=period)
            if exact:
                # on the lattice the law is checked in its sharp form (this is the reference generator fed with the sampled durations)
                fd.cmp()
                if t > s + period:
                    fd.n["overrun_steps"] += 1
                if s1 != max(t, s + period):
                    fd.bad("vertex:start-not-earliest", where=where, node=node["name"], k=k, start=s, end=t, next_start=s1, expected=max(t, s + period))
    # completeness of the valid prefix: the first masked slot (if any) must really end after the horizon
    if K < L:
        fd.cmp()
        if not float(ts_e[K]) > ts_max and float(ts_s[K]) >= 0:  # padded slots (-1) carry no time
            fd.bad("vertex:masked-although-within-horizon", where=where, node=node["name"], k=K, end=float(ts_e[K]), ts_max=ts_max)
    return steps


def first_step(receiver, recv, skip):
    for j, (start, _) in enumerate(receiver):
        if (start > recv) if skip else (start >= recv):
            return j
    return -1


def check_edge(spec, edge, ed, sender, receiver, e, ts_max, fd, where):
    """Invariants of one connection's edge arrays in episode e, against the *recorded* vertex times of both ends."""
    exact = spec["lattice"] == "dyadic"
    name = ekey(edge["o"], edge["n"])
    so, si, tr = ed["seq_out"][e], ed["seq_in"][e], ed["ts_recv"][e]
    M = len(so)
    if not (len(si) == M and len(tr) == M):
        fd.bad("edge:shape", where=where, edge=name)
        return
    Ko = len(sender)
    sent = [i for i in range(M) if int(so[i]) >= 0]
    fd.cmp(M)
    if [int(so[i]) for i in sent] != list(range(Ko)):
        fd.bad("edge:seq_out-not-the-valid-sender-steps", where=where, edge=name, seq_out=[int(x) for x in so], sender_steps=Ko)
        return
    for i in range(M):
        if int(so[i]) < 0 and int(si[i]) != -1:
            fd.bad("edge:unsent-message-received", where=where, edge=name, slot=i, seq_in=int(si[i]))
    run_max = None
    for m, i in enumerate(sent):
        end_o = sender[m][1]
        recv = float(tr[i])
        got = int(si[i])
        fd.n["edges"] += 1
        fd.cmp(3)
        d = recv - end_o
        held = run_max is not None and recv == run_max
        if not recv >= end_o:
            fd.bad("edge:received-before-sent", where=where, edge=name, seq_out=m, ts_end_sender=end_o, ts_recv=recv)
        elif not in_support(edge["comm"], d, exact):
            if held:
                fd.n["fifo_held"] += 1  # a FIFO channel may hold a message back to its predecessor's arrival
            else:
                fd.bad("edge:delay-not-a-sample", where=where, edge=name, seq_out=m, ts_end_sender=end_o, ts_recv=recv, delay=d, dist=edge["comm"])
        exp = first_step(receiver, recv, edge["skip"])
        if any(start == recv for start, _ in receiver):
            fd.n["ties"] += 1  # arrival exactly at a step start: >= (taken) versus > (skip: deferred) decides
        if exp < 0:
            fd.n["unreceived"] += 1
        overtaken = run_max is not None and recv < run_max
        if overtaken:
            fd.n["nonmonotone_recv"] += 1
        if got != exp:
            fifo = first_step(receiver, max(recv, run_max) if run_max is not None else recv, edge["skip"])
            lo = max(0, min([x for x in (exp, got) if x >= 0], default=len(receiver)) - 1)
            detail = dict(where=where, edge=name, skip=edge["skip"], seq_out=m, ts_recv=recv, seq_in=got, expected=exp,
                          receiver_starts_from=lo, receiver_starts=[s for s, _ in receiver][lo:lo + 4])
            if overtaken and got == fifo:
                # the message arrived before an earlier one of the same connection and was filed behind it
                fd.n["overtaken"] += 1
                fd.bad("edge-assign:overtaken-message-not-first-step-after-arrival", latest_earlier_arrival=run_max, **detail)
            else:
                fd.bad("edge-assign:seq_in-not-first-step-after-arrival", **detail)
        if got >= len(receiver):
            fd.bad("edge:seq_in-not-a-valid-receiver-step", where=where, edge=name, seq_out=m, seq_in=got, receiver_steps=len(receiver))
        run_max = recv if run_max is None else max(run_max, recv)


def own_cycle_check(spec_names, g, e):
    """Kahn's algorithm on the vertex set {(kind, seq)} with the implicit stateful edges and the message edges."""
    nodes, succ, indeg = set(), {}, {}
    for n, v in g["vertices"].items():
        K = int((v["seq"][e] >= 0).sum())
        for k in range(K):
            nodes.add((n, k))
    for x in nodes:
        succ[x], indeg[x] = [], 0
    dangling = []
    arcs = set()
    for (n, k) in nodes:
        if k > 0:
            arcs.add(((n, k - 1), (n, k)))
    for key, ed in g["edges"].items():
        o, n = key.split(">")
        for so, si in zip(ed["seq_out"][e], ed["seq_in"][e]):
            if int(so) < 0 or int(si) < 0:
                continue
            u, w = (o, int(so)), (n, int(si))
            if u not in nodes or w not in nodes:
                dangling.append((u, w))
                continue
            arcs.add((u, w))
    for u, w in arcs:
        succ[u].append(w)
        indeg[w] += 1
    todo = [x for x in nodes if indeg[x] == 0]
    done = 0
    while todo:
        x = todo.pop()
        done += 1
        for y in succ[x]:
            indeg[y] -= 1
            if indeg[y] == 0:
                todo.append(y)
    return done == len(nodes), dangling, len(nodes), len(arcs)


def compare_with_reference(spec, g, e, ts_max, fd, where, only_nodes=None, only_edges=None):
    """Dyadic deterministic members: exact equality with the reference generator (valid steps and sent messages).

    Generation (only_* is None): the whole graph is generated from the configuration alone (ref_generate).
    Augmentation: the added nodes are generated from the configuration and the derived horizon; an added connection is
    assigned by the reference between the *recorded* steps of its two ends (a pre-existing end was cut at the earlier horizon).
    """
    if only_nodes is None and only_edges is None:
        ref = ref_generate(spec, ts_max)
        ref_v, ref_e = ref["vertices"], ref["edges"]
    else:
        ph = ref_phases(spec)
        ref_v = {n["name"]: ref_timeline(ph[n["name"]], n["rate"], det_value(n["comp"]), ts_max) for n in spec["nodes"] if n["name"] in only_nodes}
        ref_e = {}
        for ed in spec["edges"]:
            key = ekey(ed["o"], ed["n"])
            if key in only_edges:
                ref_e[key] = ref_assign(valid_steps(g["vertices"][ed["o"]], e)[0], valid_steps(g["vertices"][ed["n"]], e)[0], det_value(ed["comm"]), ed["skip"])
    for nm, exp in ref_v.items():
        got, _ = valid_steps(g["vertices"][nm], e)
        fd.n["ref_compared"] += 1
        fd.cmp(len(exp) + 1)
        if got != exp:
            fd.bad("reference:vertices-differ", where=where, node=nm, ts_max=ts_max, got=got[:12], expected=exp[:12])
    skips = {ekey(ed["o"], ed["n"]): ed["skip"] for ed in spec["edges"]}
    for key, exp in ref_e.items():
        a = g["edges"][key]
        got = [(int(so), int(si), float(tr)) for so, si, tr in zip(a["seq_out"][e], a["seq_in"][e], a["ts_recv"][e]) if int(so) >= 0]
        fd.n["ref_compared"] += 1
        fd.cmp(len(exp) + 1)
        if got != exp:
            fd.bad("reference:edges-differ", where=where, edge=key, skip=skips[key], ts_max=ts_max, got=got[:12], expected=exp[:12])


def check_graph(spec, g, ts_max, where, new_nodes=None, new_edges=None, reference=True):
    """The whole oracle for one graph (all episodes).

    ts_max: list of horizons, one per episode.  new_nodes / new_edges: restrict the per-element checks to these (augmentation:
    the pre-existing ones were checked when they were generated and are compared bit for bit elsewhere).
    """
    fd = Findings()
    names = [n["name"] for n in spec["nodes"]]
    keys = [ekey(e["o"], e["n"]) for e in spec["edges"]]
    for nm in names:
        if nm not in g["vertices"]:
            fd.bad("graph:missing-node", where=where, node=nm)
    for k in keys:
        if k not in g["edges"]:
            fd.bad("graph:missing-edge", where=where, edge=k)
    if fd.items:
        return fd
    E = g["vertices"][names[0]]["seq"].shape[0]
    for a in list(g["vertices"].values()) + list(g["edges"].values()):
        for arr in a.values():
            if arr.ndim != 2 or arr.shape[0] != E:
                fd.bad("graph:episode-axis", where=where, shape=list(arr.shape), episodes=E)
                return fd
    for e in range(E):
        w = f"{where}/ep{e}"
        steps = {}
        for n in spec["nodes"]:
            nm = n["name"]
            if new_nodes is None or nm in new_nodes:
                steps[nm] = check_vertices(spec, n, g["vertices"][nm], e, ts_max[e], fd, w)
            else:
                steps[nm], _ = valid_steps(g["vertices"][nm], e)
        for ed in spec["edges"]:
            key = ekey(ed["o"], ed["n"])
            if new_edges is None or key in new_edges:
                check_edge(spec, ed, g["edges"][key], steps[ed["o"]], steps[ed["n"]], e, ts_max[e], fd, w)
        ok, dangling, nv, na = own_cycle_check(names, g, e)
        fd.cmp(nv + na)
        if dangling:
            fd.bad("graph:edge-to-missing-vertex", where=w, arcs=dangling[:4])
        if not ok:
            fd.bad("graph:cycle", where=w)
        if reference and spec["lattice"] == "dyadic" and spec_is_deterministic(spec):
            compare_with_reference(spec, g, e, ts_max[e], fd, w, only_nodes=new_nodes, only_edges=new_edges)
    return fd
