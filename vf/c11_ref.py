"""C11 reference model and family enumeration (plain python / numpy; imports nothing from rex or jax; ml_dtypes only to have
a numpy dtype called bfloat16).

Time base: integer *ticks* of 1/4096 s.  Every time the harness feeds to rex (message send times, dummy receive
times, step start, delay bounds, delays) is an integer number of ticks below 2**18, so all of them and all their
sums/differences are exact both in float32 (what rex computes in) and in float64 (what this reference computes
in).  "x hits a message" is therefore decided with zero tolerance.

The reference is written from the property statement:

  the sender's signal S is the piecewise-linear function through the points (arrival_i, payload_i), held constant
  outside them, where arrival_i = ts_sent_i + d for a real message (seq >= 0).  Dummy messages (seq < 0) follow
  the variant's convention: "linear" keeps them as ordinary points at their stored ts_recv; "linear_real_only"
  treats them as infinitely old (S is built from the real messages only, a window slot that *is* a dummy shows the
  dummy message itself).
  The window a step sees ends at the last arrived message e (arrival <= ts_start; at least `window` slots).
  newest entry  = S(ts_start)                                   [= sender signal at ts_start - d]
  older entry j = S(ts_start - j*T), T = 1/rate_out             [nominal reading: "one sender period apart"]
  The code under test spaces older entries by the *realised* arrival spacing of the window's messages,
  S(ts_start - (arrival_e - arrival_{e-j})).  Both are evaluated; they coincide when the window's messages are T
  apart.  Where they differ the nominal value is the specification, and an observation that equals the realised
  value gets its own signature class ("irregular-spacing:older-entry:...").
"""
import itertools

import ml_dtypes  # noqa: F401  (registers np.dtype("bfloat16"))
import numpy as np

U = 4096  # ticks per second
EPS_T = 1  # lattice step used for the continuity clause (ticks)
FD_H = 2.0 ** -22  # finite-difference step of the reference (seconds), float64
TOL_F = 2e-4  # absolute tolerance on float32 payloads (|values| <= 8, |slopes*dt| bounded; float32 interp: a few ulp of the
#               operands (6e-8 * ~50) plus one rounding of delta/dx -> < 2e-5; 2e-4 leaves a factor 10)
TOL_G_REL = 1e-3  # relative tolerance on d value / d alpha (float32 autodiff of delta/dx*df: ~1e-6 relative; FD of the float64 reference ~1e-7)

SHAPES = [(), (2,), (2, 3)]
DTYPES = ["float32", "int32", "uint8"]
LEAVES = [(f"{dt}_{'x'.join(map(str, sh)) or 's'}", dt, sh) for dt in DTYPES for sh in SHAPES]
# half-precision floating leaves (dtype restoration of every floating dtype, not only float32); same payload values as the float32 leaves
# (quarter steps in [-6.5, 2.75]: exactly representable in float16 and bfloat16)
LEAVES += [(f"{dt}_{'x'.join(map(str, sh)) or 's'}", dt, sh) for dt in ("float16", "bfloat16") for sh in [(), (2,)]]
INT_DTYPES = ("int32", "uint8")
# absolute tolerance per dtype: float32 as TOL_F; the half-precision leaves are computed in float32 by jnp.interp and rounded once
# by the cast back: |values| <= 8, unit roundoff 2^-11 (float16) / 2^-8 (bfloat16) -> 8*2^-11 = 3.9e-3, 8*2^-8 = 3.1e-2 (plus TOL_F), doubled
TOL_BY_DTYPE = {"float32": TOL_F, "float16": TOL_F + 2 * 8 * 2.0 ** -11, "bfloat16": TOL_F + 2 * 8 * 2.0 ** -8}
RATES = [8, 16, 32]
RANGES = [(0, 512), (64, 320), (0, 192)]  # [min,max] in ticks: [0,8/64], [1/64,5/64], [0,3/64]
WINDOWS = [1, 2, 3]
VARIANTS = ["linear", "linear_real_only"]


def sec(t):
    return t / U


def window_delayed(rate, mn, mx):
    """Number of extra buffer slots a trainable delay of range [mn,mx] (ticks) needs: ceil(rate*(max-min)), exact in integers."""
    return -((-(rate * (mx - mn))) // U)


# ------------------------------------------------------------------------------------------------
# payloads
# ------------------------------------------------------------------------------------------------
def _ival(mid, e):
    return (7 * mid * mid + 3 * mid * (e + 1) + 5 * e + 3) % 23


def payload(mid):
    """Payload of message id `mid` (>= 0 real, < 0 dummy) for every leaf; small integers / dyadic fractions."""
    out = {}
    for name, dt, sh in LEAVES:
        n = int(np.prod(sh)) if sh else 1
        if mid < 0:
            v = np.full(n, {"int32": -20, "uint8": 7}.get(dt, -6.5), dtype=np.float64)
        else:
            iv = np.array([_ival(mid, e) for e in range(n)], dtype=np.float64)
            if dt not in INT_DTYPES:
                v = iv / 4.0 - 2.75
            elif dt == "int32":
                v = iv - 11
            else:
                v = iv.copy()
                v[-1] = v[-1] * 10  # exercise the upper half of uint8
        out[name] = v.reshape(sh).astype(dt)
    return out


def stack_payloads(mids):
    per = [payload(m) for m in mids]
    return {name: np.stack([p[name] for p in per], axis=0) for name, _, _ in LEAVES}


def flat(data):
    """dict leaf -> (C, *shape)  ==> (C, P) float64 in LEAVES order."""
    return np.concatenate([np.asarray(data[name], dtype=np.float64).reshape(np.asarray(data[name]).shape[0], -1) for name, _, _ in LEAVES], axis=1)


def flat_masks():
    """Per flat element: integer dtype; float32 (the leaves the gradient clause differentiates); absolute tolerance."""
    is_int, is_f, tol = [], [], []
    for _, dt, sh in LEAVES:
        n = int(np.prod(sh)) if sh else 1
        is_int += [dt in INT_DTYPES] * n
        is_f += [dt == "float32"] * n
        tol += [TOL_BY_DTYPE.get(dt, 0.0)] * n
    return np.array(is_int), np.array(is_f), np.array(tol)


IS_INT, IS_F, TOLV = flat_masks()


# ------------------------------------------------------------------------------------------------
# family: timing patterns, step times, delay points
# ------------------------------------------------------------------------------------------------
def _pat(name, seq, sent, recv, mids, T, **kw):
    d = dict(name=name, seq=list(map(int, seq)), sent=list(map(int, sent)), recv=list(map(int, recv)), mids=list(map(int, mids)), T=int(T), discont=False, late=False)
    d.update(kw)
    return d


def _with_dummies(k, reals_sent, mn, T, name, **kw):
    n = len(reals_sent)
    seq = [-1] * k + list(range(n))
    sent = [0] * k + list(reals_sent)
    recv = [0] * k + [s + mn for s in reals_sent]  # real ts_recv as recorded at the minimum delay; apply_delay must override it
    mids = [-1] * k + list(range(n))
    return _pat(name, seq, sent, recv, mids, T, **kw)


def jitter_vectors(C, full):
    """Deviation vectors in {-1,0,+1}^C (units of T/4).  full: everything for C<=5, else <=2 non-zeros. not full: <=1 non-zero."""
    if full and C <= 5:
        return [v for v in itertools.product((-1, 0, 1), repeat=C) if any(v)]
    out = []
    kmax = 2 if full else 1
    for k in range(1, kmax + 1):
        for pos in itertools.combinations(range(C), k):
            for sg in itertools.product((-1, 1), repeat=k):
                v = [0] * C
                for p, s in zip(pos, sg):
                    v[p] = s
                out.append(tuple(v))
    return out


def patterns(rate, mn, mx, W, tier, seed):
    """All timing patterns of one configuration. Returns (list, info)."""
    T = U // rate
    C = W + window_delayed(rate, mn, mx)
    q = T // 4
    base = 2 * T
    out = []
    # A regular, all real (two seq offsets; one with a garbage stored ts_recv that apply_delay has to ignore)
    reg = [base + i * T for i in range(C)]
    out.append(_pat("regular", range(C), reg, [s + mn for s in reg], range(C), T))
    out.append(_pat("regular:seq5:stale-recv", range(5, 5 + C), [s + q // 2 for s in reg], [0] * C, range(3, 3 + C), T))
    # B leading dummies (k = C: nothing real at all)
    for k in range(1, C + 1):
        out.append(_with_dummies(k, [T // 2 + i * T for i in range(C - k)], mn, T, f"dummies{k}"))
    # C jittered, all real
    full = tier == "thorough"
    jv = jitter_vectors(C, full)
    n_all = len(jitter_vectors(C, True))
    if not full:
        extra = [v for v in jitter_vectors(C, True) if sum(1 for x in v if x) >= 2]
        step = 12
        jv = jv + [v for i, v in enumerate(extra) if (i + seed) % step == 0]
    for v in jv:
        sent = [base + i * T + v[i] * q for i in range(C)]
        out.append(_pat("jitter" + "".join("-0+"[x + 1] for x in v), range(C), sent, [s + mn for s in sent], range(C), T))
    # D dummies + one jittered real
    for k in (1, 2):
        if k >= C:
            continue
        n = C - k
        for pos in range(n):
            for sg in (-1, 1):
                sent = [T // 2 + i * T + (sg * q if i == pos else 0) for i in range(n)]
                out.append(_with_dummies(k, sent, mn, T, f"dummies{k}:jitter{pos}{'+' if sg > 0 else '-'}"))
    # E duplicated send times among real messages (same payload: a repeated message; different payload: a jump in the signal)
    for i in range(C - 1):
        sent = list(reg)
        sent[i + 1] = sent[i]
        mids = list(range(C))
        out.append(_pat(f"dup{i}:diff", range(C), sent, [s + mn for s in sent], mids, T, discont=True))
        mids2 = list(mids)
        mids2[i + 1] = mids2[i]
        out.append(_pat(f"dup{i}:same", range(C), sent, [s + mn for s in sent], mids2, T))
    # F late first message: the sender was silent for 40 s (dummies still in the buffer at a large step time)
    late = 40 * U
    out.append(_pat("late:regular", range(C), [late + s for s in reg], [late + s + mn for s in reg], range(C), T, late=True))
    for k in range(1, C):
        out.append(_with_dummies(k, [late + T // 2 + i * T for i in range(C - k)], mn, T, f"late:dummies{k}", late=True))
    info = dict(C=C, T_ticks=T, jitter_vectors_enumerated=len(jv), jitter_vectors_family=n_all)
    return out, info


def step_times(p, mn):
    """Step start times (ticks) for a pattern: on and off the message lattice, inside and outside the regime a compiled graph produces."""
    T = p["T"]
    q = T // 4
    reals = [s for s, sq in zip(p["sent"], p["seq"]) if sq >= 0]
    has_dummy = any(sq < 0 for sq in p["seq"])
    ts = set()
    if not reals:
        ts.update([0, q, 4 * T])
    else:
        last = reals[-1] + mn
        # regime of a compiled graph: newest buffered message arrived (at the minimum delay), the next one has not
        ts.update([last, last + q, last + 2 * q, last + 3 * q])
        # outside that regime: earlier (fewer than `window` arrived at large delays) and later (everything arrived at any delay)
        ts.update([last - T, last - 2 * T - q, last + T, last + 2 * T + q])
        if has_dummy:  # every phase of the start-up
            for r in reals:
                ts.update([r + mn - q, r + mn, r + mn + q, r + mn + 2 * q])
    return sorted(t for t in ts if t >= 0)


def delay_points(p, ts, mn, mx):
    """d values (ticks) with tags. Lattice = every d in [mn,mx] at which some window entry (nominal or realised spacing) can hit a
    message: all d congruent to (ts - send times) modulo T/4.  Regions = open intervals between consecutive lattice points (and
    the bounds); two interior points per region; the bounds; lattice point +- EPS_T for the continuity clause.
    Points whose alpha=(d-mn)/(mx-mn) is not exactly representable in float32 are dropped (only the 3/64 range has such)."""
    q = p["T"] // 4
    span = mx - mn
    reals = [s for s, sq in zip(p["sent"], p["seq"]) if sq >= 0]
    lat = set()
    for s in reals:
        r = (ts - s - mn) % q
        lat.update(range(mn + r, mx + 1, q))
    true_bp = {ts - s for s in reals if mn <= ts - s <= mx}
    cuts = sorted(lat | {mn, mx})
    pts = {}

    def add(d, tag):
        if mn <= d <= mx:
            pts.setdefault(d, set()).add(tag)

    step3 = span % 3 == 0 and (span // 3) & (span // 3 - 1) == 0  # span = 3 * 2^k: snap interior points to multiples of 3 ticks
    for a, b in zip(cuts[:-1], cuts[1:]):
        if b - a < 8:
            continue
        for num in (1, 3):
            d = a + (b - a) * num // 4
            if step3:
                d = mn + ((d - mn) // 3) * 3
                if not a + 2 < d < b - 2:
                    d = mn + ((d - mn) // 3 + 1) * 3
            if a + 2 < d < b - 2:
                add(d, "interior")
    for d in lat:
        add(d, "lattice")
        e = 3 if step3 else EPS_T
        add(d - e, "eps")
        add(d + e, "eps")
    add(mn, "bound")
    add(mx, "bound")
    out, dropped = [], 0
    for d in sorted(pts):
        alpha = (d - mn) / span
        if float(np.float32(alpha)) != alpha:
            dropped += 1
            continue
        tags = set(pts[d])
        if d in true_bp:
            tags.add("breakpoint")
        out.append((d, alpha, tags))
    return out, dropped, len(true_bp), len(cuts) - 1


def check_monotone(p, mn, mx):
    """The harness only feeds buffers whose arrival order is the buffer order for every d in [mn,mx]."""
    for d in (mn, mx):
        a = [r if sq < 0 else s + d for s, r, sq in zip(p["sent"], p["recv"], p["seq"])]
        if any(x > y for x, y in zip(a[:-1], a[1:])):
            return False
    return True


# ------------------------------------------------------------------------------------------------
# the signal and the window model
# ------------------------------------------------------------------------------------------------
def eval_signal(x, fp, qt):
    """Piecewise-linear signal through (x_i, fp_i) (x non-decreasing, fp (n,P)), constant outside, at time qt.
    Returns (lo, hi, nlo, nhi): the value as an interval (degenerate unless qt sits on messages with different payloads)
    and the hull of the neighbouring messages."""
    if qt < x[0]:
        v = fp[0]
        return v, v, v, v
    if qt > x[-1]:
        v = fp[-1]
        return v, v, v, v
    eq = np.nonzero(x == qt)[0]
    if len(eq):
        lo, hi = fp[eq].min(axis=0), fp[eq].max(axis=0)
        return lo, hi, lo, hi
    k = int(np.searchsorted(x, qt)) - 1  # x[k] < qt < x[k+1]
    w = (qt - x[k]) / (x[k + 1] - x[k])
    v = fp[k] + w * (fp[k + 1] - fp[k])
    return v, v, np.minimum(fp[k], fp[k + 1]), np.maximum(fp[k], fp[k + 1])


def window_model(variant, seq, sent, recv, data, d, ts, W, T):
    """seq (C,), sent/recv (C,) seconds, data (C,P), d/ts/T seconds. Returns one dict per window entry, j = 0 newest.
    keys: nom = (lo,hi,nlo,nhi) the statement's value (nominal spacing j*T), or None where no sender period is defined for the
    slot (a dummy message is involved); reals = list of the same with the realised spacing of the window's messages;
    irregular (realised spacing != j*T); dummy (slot involves a dummy message); e_real (last arrived message is real);
    skip (nothing is decided for this entry).
    When fewer than `window` messages have arrived the statement does not say which slots the window shows (first `window`
    slots or the newest ones): the newest entry and, for all-real buffers, the nominal older entries are still decided;
    older entries of buffers with dummies are skipped there."""
    real_m = seq >= 0
    C = len(seq)
    a = np.where(real_m, sent + d, recv)
    n_arr = int(np.sum(a <= ts))
    short = n_arr < W
    ends = [max(n_arr, W) - 1] if not short else sorted({W - 1, C - 1})
    if variant == "linear":
        x, fp = a, data
    elif real_m.any():
        x, fp = a[real_m], data[real_m]
    else:
        x, fp = None, None
    out = []
    for j in range(W):
        e = ends[0]
        s = e - j
        all_real = bool(real_m[s : e + 1].all())
        ent = dict(irregular=False, dummy=not all_real, e_real=bool(real_m[e]), nom=None, reals=[], skip=False, short=short)
        if x is None:  # linear_real_only without any real message: the dummy message
            v = data[-1]
            ent["reals"] = [(v, v, v, v)]
        elif j == 0:
            ent["nom"] = eval_signal(x, fp, ts)
            ent["reals"] = [ent["nom"]]
            ent["dummy"] = False
        elif short:
            if not real_m.all():
                ent["skip"] = True
            else:
                ent["nom"] = eval_signal(x, fp, ts - j * T)
                ent["reals"] = [eval_signal(x, fp, ts - (a[e2] - a[e2 - j])) for e2 in ends]
                ent["irregular"] = any((a[e2] - a[e2 - j]) != j * T for e2 in ends)
                ent["dummy"] = False
        elif variant == "linear":
            ent["reals"] = [eval_signal(x, fp, ts - (a[e] - a[s]))]
            if all_real:
                ent["nom"] = eval_signal(x, fp, ts - j * T)
                ent["irregular"] = bool((a[e] - a[s]) != j * T)
        else:
            if real_m[e] and not real_m[s]:
                v = data[s]  # the slot is a dummy message: it is shown as it is
                ent["reals"] = [(v, v, v, v)]
            elif not real_m[e]:
                # nothing real has arrived: dummies are infinitely old, so at any finite time S is the first real message
                ent["reals"] = [eval_signal(x, fp, ts - j * T)]
            else:
                ent["reals"] = [eval_signal(x, fp, ts - (a[e] - a[s]))]
                ent["nom"] = eval_signal(x, fp, ts - j * T)
                ent["irregular"] = bool((a[e] - a[s]) != j * T)
        out.append(ent)
    return out


def max_slope(variant, seq, sent, recv, data, d):
    """Per element: largest |slope| of S over all segments between distinct consecutive points (knot gaps shrunk by one lattice step)."""
    real_m = seq >= 0
    a = np.where(real_m, sent + d, recv)
    if variant != "linear":
        a, data = a[real_m], data[real_m]
    L = np.zeros(data.shape[1]) if len(a) else 0.0
    for k in range(len(a) - 1):
        dx = a[k + 1] - a[k]
        if dx > 0:
            L = np.maximum(L, np.abs(data[k + 1] - data[k]) / max(dx - 2 * sec(EPS_T), dx / 2))
    return L


def zoh_window(seq, sent, recv, d, ts, W):
    """Indices of the messages a zero-order-hold step sees (last `window` arrived ones, at least the first `window` slots)."""
    a = np.where(seq >= 0, sent + d, recv)
    n_arr = int(np.sum(a <= ts))
    e = max(n_arr, W) - 1
    return list(range(e - W + 1, e + 1)), a


# ------------------------------------------------------------------------------------------------
# comparison helpers
# ------------------------------------------------------------------------------------------------
def value_ok(v, lo, hi):
    """v (P,) observed (float64 view of the restored dtype). floats: within the dtype's tolerance (TOLV) of [lo,hi]; integers: any integer between
    floor(lo - 1e-6) and ceil(hi + 1e-6): the property does not fix the rounding of the cast, and rex truncates a float32 result
    that can sit one ulp below an integer (observed: -2.9999998 -> -2 in one XLA program, -3 in another), so an integer-valued
    signal accepts its two integer neighbours as well.  Exactness at message hits is demanded by the zoh clause instead."""
    okf = (v >= lo - TOLV) & (v <= hi + TOLV)
    oki = (v >= np.floor(lo - 1e-6)) & (v <= np.ceil(hi + 1e-6))
    return np.where(IS_INT, oki, okf)


def hull_ok(v, nlo, nhi):
    okf = (v >= nlo - TOLV) & (v <= nhi + TOLV)
    oki = (v >= np.floor(nlo + 1e-9)) & (v <= np.ceil(nhi - 1e-9))
    return np.where(IS_INT, oki, okf)


def entry_ok(v, quad):
    """value_ok and hull_ok in one pass (same acceptance set; this is the hot path)."""
    lo, hi, nlo, nhi = quad
    low = np.where(IS_INT, np.maximum(np.floor(lo - 1e-6), nlo), np.maximum(lo, nlo) - TOLV)
    upp = np.where(IS_INT, np.minimum(np.ceil(hi + 1e-6), nhi), np.minimum(hi, nhi) + TOLV)
    return bool(((v >= low) & (v <= upp)).all())
