"""C15 Delay distributions give non-negative, replayable samples and true quantiles (DESIGN section 6, C15).

Bounded-exhaustive (E2): every member of the distribution lattice of vf.c15_ref x every operation history up to
depth 4 over {reset(k1), reset(k2), sample(), sample(3), sample((2,2))} from `create`, executed on the real
StaticDist / TrainableDist objects and judged transition by transition by the reference state machine RefDist;
41 quantile levels per member judged by float64 CDFs; default delays of BaseNode / Connection; GMMEstimator on a
small fixed family of delay data sets at three units.
"""
import collections

from vf import c15_ref as R
from vf.common import Pool, nproc, seed

MOD = "vf.c15_real"
MAX_PER_SIG = 3


def _plan(tier):
    sd = seed()
    specs = R.dist_specs()
    keyseeds = [2 * sd + 1, 2 * sd + 2]  # k1, k2 (create() itself uses PRNGKey(0))
    if tier == "thorough":
        chosen, sliced = list(range(len(specs))), None
    else:
        # quick: every Deterministic / Normal / TrainableDist member, every 2-component mixture, and a VERIF_SEED-rotated
        # third of the 3-component mixtures
        chosen = []
        k3 = 0
        for i, s in enumerate(specs):
            if s["kind"] == "mix" and len(s["w"]) == 3:
                if (k3 + sd) % 3 == 0:
                    chosen.append(i)
                k3 += 1
            else:
                chosen.append(i)
        sliced = f"3-component mixtures: every third member, rotated by VERIF_SEED={sd} ({len(chosen)} of {len(specs)} distributions)"
    # jit(sample_pure) costs one XLA compilation per member: quick compares it on every 4th member (rotated)
    # quick: histories to depth 3 on every member and to depth 4 on every 4th (rotated)
    full = tier == "thorough"
    dist_tasks = [dict(spec=specs[i], depth=4 if (full or (n + sd) % 4 == 2) else 3, keyseeds=keyseeds, jit=(full or (n + sd) % 4 == 0)) for n, i in enumerate(chosen)]
    if sliced:
        sliced += "; histories to depth 3 on every member, depth 4 and jit(sample_pure) == eager on every 4th member each (rotated)"
    const_tasks = [dict(c=c, n=n, scale=sc) for c in R.CONST_VALUES for n in R.CONST_N for sc in R.GMM_SCALES]
    names = list(R.gmm_datasets())
    if tier == "thorough":
        settings = [(nc, fs, pc) for nc in (1, 2, 3) for fs in (0, 1, 2, 3) for pc in (0.99, 0.9)]
    else:
        settings = [(2, sd % 4, 0.99)]
    fit_tasks = [dict(data=nm, ncomp=nc, fseed=fs, percentile=pc) for nm in names for (nc, fs, pc) in settings]
    return specs, dist_tasks, const_tasks, fit_tasks, sliced, keyseeds, settings


def run(tier, rep):
    specs, dist_tasks, const_tasks, fit_tasks, sliced, keyseeds, settings = _plan(tier)
    per_sig = collections.Counter()
    fam = collections.defaultdict(collections.Counter)

    def emit(viols):
        for sig, what, rp in viols:
            per_sig[sig] += 1
            if per_sig[sig] <= MAX_PER_SIG:
                rep.violation(sig, what, replay=rp)

    # quick: 8 workers (each worker pays ~10 s of imports and first-use XLA compilations before it is useful)
    with Pool(None if tier == "thorough" else min(nproc(), 8)) as pool:
        # one stream of tasks, longest first (fits at three units, then mixtures, then the rest)
        tasks = [dict(t, task="task_gmm_fit") for t in fit_tasks]
        tasks += [dict(t, task="task_dist") for t in sorted(dist_tasks, key=lambda t: t["spec"]["kind"] != "mix")]
        tasks += [dict(t, task="task_gmm_const") for t in const_tasks]
        by = collections.defaultdict(list)
        for name, res in pool.imap(MOD, "task_any", tasks):
            by[name].append(res)
        res_fit, res_const, res_dist = by["task_gmm_fit"], by["task_gmm_const"], by["task_dist"]

    # distributions ---------------------------------------------------------------------------------
    arr_q = collections.Counter()
    for r in sorted(res_dist, key=lambda r: R.spec_name(r["spec"])):
        k = r["spec"]["kind"]
        f = fam[k]
        f["members"] += 1
        f["operations_applied"] += r["hist"]["ops"]
        f["histories"] += r["hist"]["histories"]
        f["distinct_rng_states"] += r["hist"]["states"]
        f["distinct_state_x_shape_outcomes"] += r["hist"]["table"]
        f["delays_drawn"] += r["hist"]["drawn"]
        f["delays_clipped_to_zero"] += r["hist"]["clipped"]
        f["jit_samples_compared"] += r["jit"]
        f["quantile_calls"] += r["quant"]["n"]
        f["node_and_connection_constructions"] += r["node"]["n"]
        if r["mixq"]["n"]:
            f["direct_vector_quantile_calls"] += r["mixq"]["n"]
            f["direct_calls_that_raised_RuntimeError"] += r["mixq"]["raised"]
            f["direct_calls_that_returned"] += r["mixq"]["returned"]
            f["direct_levels_judged"] += r["mixq"]["levels"]
        arr_q[(k, r["quant"]["array_q_ok"])] += 1
        emit(r["viols"])
        rep.add(states=r["hist"]["states"] + len(R.quantile_levels()), transitions=r["hist"]["ops"] + r["quant"]["n"] + r["node"]["n"] + r["jit"] + r["mixq"]["n"],
                traces=r["hist"]["histories"] + r["quant"]["n"] + r["node"]["n"] + r["jit"] + r["mixq"]["n"])
    for k, f in fam.items():
        rep.section(f"family_{k}", **f)
    rep.section("histories", alphabet=[R.op_name(o) for o in R.OPS], depth_completed=min(t["depth"] for t in dist_tasks), members_at_depth_4=sum(t["depth"] == 4 for t in dist_tasks),
                histories_per_member={"depth3": R.n_histories(3), "depth4": R.n_histories(4)}, keyseeds=keyseeds,
                family_size=len(specs), members_run=len(dist_tasks), slice=sliced or "full")
    rep.section("quantiles", levels=R.quantile_levels(), called_as="python float (as rex does); monotone over the sorted grid; judged by float64 CDF",
                array_valued_q_works={f"{k}:{ok}": n for (k, ok), n in sorted(arr_q.items(), key=str)},
                note="array-valued q is outside the property (q: float); for mixtures it raises ValueError for more than one level (observed, not a violation)")
    rep.section("direct_mixture_quantiles", function="rex.utils.mixture_distribution_quantiles(dist, probs vector, 1000, grid_min, grid_max)",
                grids=["as-rex (component 0.1%/99.9% points pushed out 10%)", "component-ends", "truncated-4-96 (does not span the level grid)"],
                level_vectors={k: len(v) for k, v in R.mixq_level_vectors().items()}, beyond_levels=[R.Q_BELOW, R.Q_ABOVE],
                oracle="raises RuntimeError, or every entry within one grid cell of the float64 quantile and non-decreasing in q")
    for r in res_dist[:1] + [x for x in res_dist if x["spec"]["kind"] == "mix"][:2]:
        rep.sample(dict(dist=R.spec_name(r["spec"]), q50=r["quant"]["q50"], q99=r["quant"]["q99"], histories=r["hist"]["histories"], rng_states=r["hist"]["states"],
                        clipped=f"{r['hist']['clipped']}/{r['hist']['drawn']}"))

    # estimator -------------------------------------------------------------------------------------
    nconst_det = 0
    for r in res_const:
        emit(r["viols"])
        nconst_det += int(bool(r["got"]) and r["got"]["kind"] == "det")
    rep.add(states=len(res_const), transitions=len(res_const), traces=len(res_const))
    nfits, dev = 0, 0.0
    for r in res_fit:
        emit(r["viols"])
        nfits += r["fits"]
        dev = max(dev, r["dev"])
    rep.add(states=nfits, transitions=nfits, traces=nfits)
    rep.section("estimator", constant_sets=len(res_const), constant_sets_returned_deterministic=nconst_det, constant_values=R.CONST_VALUES, constant_n=R.CONST_N,
                data_sets=list(R.gmm_datasets()), units=R.GMM_SCALES, settings_num_components_seed_percentile=[list(s) for s in settings], fits=nfits,
                max_unit_equivariance_deviation=dev, strength="weak: a handful of fixed data sets, oracle = proper + unit-equivariant + located/spread within the data")
    if res_fit:
        r = res_fit[0]
        rep.sample(dict(estimator=r["arg"], fit_at_unit_1=r["res"].get("1.0")))
    rep.section("violations_by_signature", **{k: v for k, v in per_sig.items()})
    rep.section("cost_cpu_s", **{k: round(sum(r.get("cpu_s", 0.0) for r in v), 1) for k, v in by.items()})

    if sliced:
        rep.not_exhaustive("quick tier: " + sliced + "; estimator with one fit setting instead of 24")
    rep.assume(
        "supported delay distributions: Deterministic / Normal / MixtureSameFamily-of-Normal with non-negative locations, TrainableDist with 0 <= min < max, alpha in [0, 1]",
        "parameter values, rng keys (3 legacy uint32 keys incl. the create() default), shapes {(), (3,), (2,2)} and quantile levels are the stated lattices, not all reals",
        "the law of the samples (that they follow the declared distribution) is not part of the property and is not judged, except for point masses",
        "float64 math.erfc / statistics.NormalDist are the trusted CDFs; rex results are float32, tolerances are 2 ulp32 in x and 1e-6 (Normal) / 1e-5 (mixture grid) in probability",
        "estimator clause decided on 6 data sets x 3 units and 18 constant sets only (weak)",
    )


def replay(body):
    from vf import c15_real as X

    rp = body["replay"]
    kind = rp["kind"]
    if kind == "hist":
        # the failing history alone (twice, from fresh objects), then the whole tree to its depth: a discrepancy between two
        # histories that reach the same rng state only shows in the tree
        bad = X.run_path(rp["spec"], rp["ops"], rp["keyseeds"])
        if not bad:
            h, _ = X.explore_histories(rp["spec"], len(rp["ops"]), rp["keyseeds"])
            bad = [(s, f"after {' ; '.join(R.op_name(tuple(o)) for o in path)}: {w}") for s, w, path in h["viols"]]
    elif kind == "jit":
        _, ref = X.explore_histories(rp["spec"], rp["depth"], rp["keyseeds"])
        bad, _ = X.check_jit(rp["spec"], ref, rp["keyseeds"])
    elif kind == "quantile":
        _, bad = X.check_quantile_one(rp["spec"], rp["q"])
    elif kind == "monotone":
        vals = [X.check_quantile_one(rp["spec"], q)[0] for q in rp["q"]]
        bad = [("not-monotone", f"{vals}")] if None in vals or vals[0] > vals[1] else []
    elif kind == "mixq":
        _, bad = X.check_mixq_one(rp["spec"], rp["grid"], rp["levels"])
    elif kind == "node":
        bad = [(s, w) for s, w, _ in X.check_node_default(rp["spec"])["viols"]]
    elif kind == "gmm_const":
        bad = [(s, w) for s, w, _ in X.task_gmm_const(rp)["viols"]]
    elif kind == "gmm_fit":
        bad = [(s, w) for s, w, _ in X.task_gmm_fit(rp)["viols"]]
    else:
        raise ValueError(f"unknown replay kind {kind}")
    for s, w in bad:
        print(f"replay: {s}: {w}")
    if not bad:
        print("replay: case passes")
    return not bad
