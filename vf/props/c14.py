"""C14 Records and graphs convert, stack, pad and filter without loss (DESIGN section 6, C14)."""
from vf.common import Pool, seed
from vf.fcomp import all_sources
from vf.props.c07 import _collect


def run(tier, rep):
    srcs = all_sources(tier, seed())
    # connections made under a shadow input name (connect(..., name=...)): records and graphs are keyed by node names
    import copy

    from vf import harness as H
    from vf.fcomp import TWO

    for nm, sp in (("H1", H.H1((1, 6))), ("H5", H.H5())):
        sh = copy.deepcopy(sp)
        for i, e in enumerate(sh["edges"]):
            e["name"] = f"in{i}_{e['o']}"
        srcs.append(dict(kind="async", name=f"async.{nm}.shadow-names", spec=sh, user=TWO, policy="rr"))
    with Pool(maxtasks=20) as pool:
        results = list(pool.imap("vf.c14_task", "c14_task", [dict(src=s, max_stacks=12 if tier == "quick" else 60) for s in srcs]))
    _collect(rep, results, "conversions")
    rep.section("family", sources=[s["name"] for s in srcs][:60], operations=["EpisodeRecord.to_graph", "ExperimentRecord.to_graph", "ExperimentRecord.stack + [i]", "Graph.stack of every ordered pair/triple + [i] + len",
                                                                            "to_networkx_graph", "Graph.filter / EpisodeRecord.filter for every node subset x both flags"])
    for r in results[:2]:
        rep.sample(dict(source=r["name"], stacks=r["instances"], vertices_and_edges=r["states"], comparisons=r["transitions"]))
    if tier == "quick":
        rep.not_exhaustive("quick tier: rotated slice of the sources; at most 12 ordered stacks per source")
    rep.assume("reference vertex/edge sets come from the plain record summary (threaded sources) or from the timeline generator (raw sources)")


def replay(body):
    from vf.c14_task import c14_task

    r = c14_task(dict(src=body["replay"]["src"], max_stacks=60))
    print("violations:", [(s, str(w)[:400]) for s, w, _ in r["violations"]][:6])
    return not r["violations"]
