"""Compiled half of C06: every scheduled vertex inside the horizon executes the step function exactly once."""
from vf.common import seed
from vf.fcomp import all_sources
from vf.props.c07 import _collect


def run(tier, rep, pool):
    sd = seed()
    srcs = all_sources(tier, sd)
    if tier == "quick":
        srcs = [s for i, s in enumerate(srcs) if (i + sd) % 3 == 0]
    tasks = []
    for i, s in enumerate(srcs):
        full = tier == "thorough"
        tasks.append(dict(src=s, modes=("MCS", "GENERATIONAL", "TOPOLOGICAL") if full else (("MCS", "GENERATIONAL", "TOPOLOGICAL")[i % 3],), prunes=(True, False) if full else (bool(i % 2),),
                          disable_jit=(i % 5 == 0), eager=True))
    results = list(pool.imap("vf.compiled_tasks", "c06c_task", tasks))
    _collect(rep, results, "compiled_half")
    rep.section("compiled_drivers", drivers=["rollout (jit; lax.scan over generations when uniform)", "rollout(carry_only=False) (jit; lax.scan over run)", "run x2 (eager)", "reset/step with overrides on odd steps (jit)", "run under jax.disable_jit (every 5th source)"],
                counted_runs=sum(r["traces"] for r in results))


def replay(body):
    from vf.compiled_tasks import c06c_task

    rp = body["replay"]
    r = c06c_task(dict(src=rp["src"], modes=[rp["mode"]], prunes=[rp["prune"]], disable_jit=rp.get("driver") == "run-disable_jit"))
    print("violations:", [(s, str(w)[:400]) for s, w, _ in r["violations"]][:6])
    return not r["violations"]
