"""Compiled half of C06 (filled in with the compiled-runtime machinery)."""


def run(tier, rep, pool):
    rep.section("compiled_half", status="not built yet")


def replay(body):
    return True
