"""C18 Search solvers keep the best candidate, respect bounds and ignore NaN losses (DESIGN section 6, C18).

Decision procedure: breadth-first enumeration of loss histories on the real rex.cem / rex.evo code.

Families (parameter tree {"a": (1,), "b": (2,)}, box [-1,1]x[-1,1]x[-.5,.5], initial mean off-centre, initial spread of the
order of the box so that clipping is active at every level):
  cem seam   cem_update_mean_stdev(solver, state, samples, losses): N = 4 scripted samples per level (one level with two
             identical points, one repeating an earlier point), every loss vector of {NaN,1,2,3,+inf}^4 from every
             reachable state, elite_portion {0.25,0.5} x evolution_smoothing {0,0.1,0.9}; successor states de-duplicated
             bitwise on (mean, stdev, bestsofar, bestsofar_loss).
  cem step   the same histories through cem_step: candidates are whatever the real code samples for (state, rng); they
             are read back through the public API by probe passes and every loss assignment in alphabet^N to them is
             pushed through a lookup loss function (c18_drive docstring).
  cem run    cem(..., max_steps=T) with one fixed table loss (2x2 bins), every table of alphabet^4, several rngs.
  evo step / evo run   the same two constructions through evo_step / evo for CMA_ES, SimpleGA, OpenES (with and without
             rank shaping), popsize 4 (5, 6 with a reduced alphabet in the thorough tier).

Oracle per transition (reference model c18_ref: NaN counted as +inf, stable top-k, smoothed mean/std, running best):
  O1 every candidate handed to the loss function lies in the box (NaN is outside);
  O2 best loss' <= best loss, and best loss' = min(best loss, smallest finite loss of this iteration);
  O3 best candidate' is a candidate of this iteration with that loss, or the old best if the loss did not improve
     (induction over the history gives "a candidate that attained it");   a NaN candidate chosen as best is O3's failure;
  O4 (CEM) some k-subset S of the candidates explains the new mean/stdev (smoothed mean / population std of S) and S is a
     valid top-k set: max key(S) <= min key(rest), key = loss with NaN -> +inf.  Tie-breaking is free.
  Observation only (not a violation, decision recorded in the final report): transitions where the identified elite set
     holds a NaN-loss candidate although the iteration has a finite-loss candidate.  With a fixed elite count this happens
     exactly when fewer than k candidates have a non-NaN loss, or when NaN ties with a +inf loss; the NaN candidate displaces
     nobody.  Counted in the evidence as `elite_fill_cases_observed`.
  Evo signature: NaN candidates asked after a non-finite loss entered `tell` are reported as "evo:<config>:nan-poisons-mean"
     (plain OpenES / PGPE multiply the loss values into the mean update; rex's NaN -> +inf turns that into NaN).
Because O2/O3 are checked on every edge of the explored graph and the initial state makes no claim, they hold on every
path, which is the property's "so far" wording.
"""
import collections

from vf.common import Pool, seed

PID = "C18"
CEM_CONFIGS = [(ep, s) for ep in (0.25, 0.5) for s in (0.0, 0.1, 0.9)]
EVO_CORE = ["CMA_ES", "SimpleGA", "OpenES", "OpenES+centered_rank"]
EVO_MORE = ["CMA_ES.pop6", "SimpleGA.pop5", "OpenES+centered_rank.pop6", "PGPE"]
SMALL_ALPHABET = [float("nan"), 1.0, float("inf")]


def _specs(tier):
    sd = seed()
    thorough = tier == "thorough"
    bases = [sd + i for i in range(4)] if thorough else [sd]
    run_seeds = [sd * 8 + i for i in range(8 if thorough else 2)]
    specs = []
    for lab in EVO_CORE:  # slowest first
        for b in bases:
            # plain OpenES consumes the loss values themselves: its frontier is ~alphabet^N per level (and it is the
            # configuration with the known NaN-poisoning finding), so the quick tier stops one level earlier there
            specs.append(dict(kind="bfs", solver="evo", label=lab, base=b, depth=2 if (lab == "OpenES" and not thorough) else 3))
    if thorough:
        for lab in EVO_MORE:
            for b in bases[:2]:
                specs.append(dict(kind="bfs", solver="evo", label=lab, base=b, depth=3, alphabet=SMALL_ALPHABET))
    for ep, s in CEM_CONFIGS:
        for b in bases:
            specs.append(dict(kind="bfs", solver="cem", family="step", ep=ep, s=s, base=b, depth=4 if thorough else 3))
    for ep, s in CEM_CONFIGS:
        specs.append(dict(kind="bfs", solver="cem", family="seam", ep=ep, s=s, depth=4 if thorough else 3))
    for lab in EVO_CORE + (EVO_MORE if thorough else []):
        specs.append(dict(kind="run", solver="evo", label=lab, seeds=run_seeds, T=4))
    for ep, s in CEM_CONFIGS:
        specs.append(dict(kind="run", solver="cem", ep=ep, s=s, seeds=run_seeds, T=4))
    return specs


def _name(spec):
    if spec["solver"] == "cem":
        return f"cem:{spec.get('family', 'run') if spec['kind'] == 'bfs' else 'run'}"
    return f"evo:{spec['label']}"


def _sig(spec, cls):
    return f"{_name(spec)}:{cls}"


def run(tier, rep):
    specs = _specs(tier)
    fam = collections.defaultdict(lambda: collections.Counter())
    depth_done = {}
    seen = collections.Counter()
    with Pool() as pool:
        for out in pool.imap("vf.c18_drive", "task", specs):
            spec = out["spec"]
            key = ("run:" if spec["kind"] == "run" else "bfs:") + _name(spec)
            c = fam[key]
            c["tasks"] += 1
            c["states"] += out["states"]
            c["transitions"] += out["transitions"]
            c["real_code_executions"] += out["traces"]
            c["states_not_expanded_after_violation"] += out["pruned"]
            c["violating_cases"] += sum(out["n_viol"].values())
            c["elite_fill_cases_observed"] += out["n_strict"]
            c["loss_assignments_per_state"] = out["n_vecs"]
            c["max_task_wall_s"] = max(c["max_task_wall_s"], out["wall"])
            c["cpu_s"] += out["cpu"]
            if spec["kind"] == "bfs":
                depth_done[key] = spec["depth"]
                c["distinct_loss_vectors_observed"] += sum(l.get("distinct_loss_vectors", 0) for l in out["levels"])
                c["max_frontier"] = max(c["max_frontier"], max(l["states"] for l in out["levels"]))
            else:
                c["distinct_loss_matrices"] += out["distinct_loss_matrices"]
                c["runs_with_nan_loss"] += out["runs_with_nan_loss"]
            if out.get("unclassified"):
                rep.not_exhaustive(f"{key}: {out['unclassified']} fast-path mismatches beyond the slow-judge cap were not classified (violations were already confirmed)")
            rep.add(states=out["states"], transitions=out["transitions"], traces=out["traces"])
            for s in out["samples"][:1]:
                if seen["sample:" + key] < 1:
                    seen["sample:" + key] += 1
                    rep.sample(s, limit=8)
            for cls, det, rp in out["violations"]:
                sig = _sig(spec, cls)
                seen[sig] += 1
                if seen[sig] <= 2:
                    rep.violation(sig, dict(case_class=cls, config=_name(spec), spec=spec, detail=det, cases_of_this_class_in_task=out["n_viol"].get(cls)), replay=rp)
    for key, c in sorted(fam.items()):
        d = dict(c)
        if key in depth_done:
            d["depth_completed"] = depth_done[key]
        rep.section(key.replace(":", "_"), **d)
    rep.section(
        "family", loss_alphabet=["NaN", 1, 2, 3, "+inf"], cem_configs=[f"elite_portion={ep},smoothing={s}" for ep, s in CEM_CONFIGS], cem_num_samples=4,
        evo_configs=EVO_CORE + (EVO_MORE if tier == "thorough" else []), rng_bases=[seed() + i for i in range(4)] if tier == "thorough" else [seed()],
        quick_slice="one rng base (= VERIF_SEED) for the step families and 2 rngs for the full runs; depth 3" if tier == "quick" else "full: 4 rng bases, 8 run rngs, CEM depth 4, Evo depth 3",
    )
    if tier == "quick":
        rep.not_exhaustive("quick tier: rng base = VERIF_SEED only (thorough: 4 bases), CEM depth 3 (thorough: 4), popsize 4 only")
    rep.assume(
        "loss values from {NaN,1,2,3,+inf}; N = 4 candidates (5/6 with {NaN,1,+inf} in the thorough tier); 3 parameters in 2 leaves; one box; the stated elite portions / smoothings / strategies",
        "candidates are observed through the loss function of a second, identical call (cem_step/evo_step are pure functions of (state, rng): a lookup miss is a harness error)",
        "cem()/evo() full runs: only losses and the final state are observable, so bounds are checked inside the loss function and 'attained' by re-evaluating the table on the reported best",
        "CEM elite set identified from the new mean/stdev within 1e-5 (float32 rounding); Evo strategies' internal elite sets are evosax internals and are not inspected (only best_member/best_fitness and the asked candidates)",
    )


def replay(body):
    from vf import c18_drive

    rp = body["replay"]
    found = c18_drive.replay(rp)
    hits = [(c, d) for c, d, observation_only in found if not observation_only]
    for c, d in hits[:5]:
        print("replayed:", c, str(d)[:400])
    print("replayed case:", rp.get("spec"), "history" if "history" in rp else "table", rp.get("history", rp.get("table")), "->", "violations: %d" % len(hits))
    return not hits
