"""C08 Input windows read exactly the scheduled messages from the output buffers (DESIGN section 6, C08)."""
from vf.common import Pool, seed
from vf.fcomp import all_sources
from vf.props.c07 import _collect


def run(tier, rep):
    sd = seed()
    srcs = all_sources(tier, sd)
    tasks = []
    for i, s in enumerate(srcs):
        core = s["name"].startswith(("async.H", "raw.fan", "raw.ratio", "raw.abc", "gen.3n"))
        dyn = core or (i + sd) % (4 if tier == "quick" else 1) == 0
        if dyn:
            # static replay of all variants + dynamic probe runs of two rotated modes (always one of GENERATIONAL / TOPOLOGICAL)
            tasks.append(dict(src=s, dynamic=False, seed=sd))
            tasks.append(dict(src=s, dynamic=True, modes=(("GENERATIONAL", "TOPOLOGICAL")[(i + sd) % 2], ("MCS", "TOPOLOGICAL", "GENERATIONAL")[(i + sd) % 3]), prunes=(bool((i + sd) % 2),), seed=sd))
        else:
            tasks.append(dict(src=s, dynamic=dyn, seed=sd))
    with Pool(maxtasks=6) as pool:
        results = list(pool.imap("vf.compiled_tasks", "c08_task", tasks))
    _collect(rep, results, "buffers")
    rep.add(traces=sum(r["traces"] for r in results))
    rep.section("options", buffer_options=["auto", "auto+pad1", "user=auto", "user=auto+2", "auto-1 (must be rejected)"], rejected_inadmissible=sum(r["rejected"] for r in results),
                dynamic_probe_runs=sum(r["traces"] for r in results), dynamic_sources=sum(1 for t in tasks if t["dynamic"]), dynamic_options=["auto", "auto+pad1", "user=auto+2"])
    for r in results[:2]:
        rep.sample(dict(source=r["name"], instances=r["instances"], reads=r["transitions"]))
    if tier == "quick":
        rep.not_exhaustive("quick tier: rotated slice of the family sources; dynamic probe runs on the core sources and every 4th family source, two modes each")
    rep.assume("static part: abstract ring-buffer machine replaying graph.timings in execution order (reads of a generation see the buffer as of generation start)",
               "dynamic part: payload tags (producer, eps, seq) observed by the probes' host-side trace; starting step 0, every episode")


def replay(body):
    from vf.compiled_tasks import c08_task

    rp = body["replay"]
    r = c08_task(dict(src=rp["src"], modes=[rp["mode"]], prunes=[rp["prune"]], dynamic=rp.get("dynamic", False)))
    print("violations:", [(s, str(w)[:300]) for s, w, _ in r["violations"]][:5])
    return not r["violations"]
