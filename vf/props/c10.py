"""C10 A trainable delay set to d behaves exactly like a static delay of d (DESIGN section 6, C10)."""
from vf.common import Pool, seed
from vf.c10_task import harnesses


def run(tier, rep):
    sd = seed()
    hs = harnesses(tier, sd)
    tasks = [dict(h=h, seed=sd % 3, mode=("MCS", "GENERATIONAL", "TOPOLOGICAL")[i % 3]) for i, h in enumerate(hs)]
    with Pool(maxtasks=8) as pool:
        results = list(pool.imap("vf.c10_task", "c10_task", tasks))
    ties = regions = inst = 0
    for r in results:
        rep.add(states=r["states"], transitions=r["transitions"], traces=r["traces"])
        ties += r["ties"]
        regions += r["regions"]
        inst += r["instances"]
        for sig, what, rp in r["violations"]:
            rep.violation(sig if sig.startswith("skip-tie:") else f"{sig}@{r['name']}", what, replay=rp)
    rep.section("regions", harnesses=len(hs), family_size=108, d_values_run=inst, regions_of_d=regions, tie_cases_with_skip=ties,
                d_representatives="every breakpoint (delayed arrival == a step start) inside [min,max], one interior point per region, both bounds, 4 values outside the bounds (saturation)",
                ways=["distribution", "init_delays", "params consumed by init_delays"])
    for r in results[:3]:
        rep.sample(dict(harness=r["name"], d_values=r["instances"], regions=r["regions"], steps_compared=r["transitions"]))
    if tier == "quick":
        rep.not_exhaustive("quick tier: every 5th harness (rotated by VERIF_SEED)")
    rep.assume("the static twin is the same timeline with the connection's edges recomputed for a fixed delay clip(d) by an independent generator, executed by the reference interpreter RefExec (validated against the compiled runtime by C01)",
               "all times dyadic: ties are exact")


def replay(body):
    from vf.c10_task import c10_task

    rp = body["replay"]
    r = c10_task(dict(h=rp["h"], seed=rp.get("seed", 0), mode=rp.get("mode", "MCS")))
    print("violations:", [(s, str(w)[:400]) for s, w, _ in r["violations"]][:6])
    return not [v for v in r["violations"]]
