"""C05 Graph lifecycle calls always return and episodes are isolated (DESIGN section 6, C05)."""
import collections

from vf import harness as H
from vf.common import Pool, seed
from vf.explore import explore_many

JUDGE = ("vf.judges", "judge_lifecycle")


def _jobs(tier):
    deep, wide = {}, {}
    pols = ["prio", "rr", "rev"]
    core = {
        "L1.16-16": H.L1(16, 16),
        "L1.8-16": H.L1(8, 16, 1, 1, 0, 1),
        "L1.16-8": H.L1(16, 8, 1, 2, 1, 2),
        "L2": H.L2(16, 16),
    }
    more = {"L0": H.L0(), "L3": H.L3(), "L4": H.L4("c"), "L2.phase": H.L2(16, 8, "PHASE")}
    # an overrun in the first episode (accumulated FREQUENCY drift must not leak into the next one) and a slow
    # start-up hook (virtual wall time spent in startup() is not episode time)
    ovr = H.L1(16, 8, 1, 2, 1, 2)
    ovr["nodes"]["a"]["comp"] = H.d(1, (1, 9, 1, 6))
    ovr["nodes"]["b"]["comp"] = H.d(2, (2, 12))
    more["L1.overrun"] = ovr
    slow = H.L1(16, 8, 1, 2, 1, 2)
    slow["nodes"]["a"]["startup_sleep"] = 1.0
    more["L1.slow-startup"] = slow
    more["L5"] = H.L5()
    short = [h for h in H.histories(1, 2, override=True)]
    two = H.histories(2, 2 if tier == "thorough" else 1, override=False)
    # deep: deviation-bounded exploration
    for hn, sp in core.items():
        for pol in pols:
            for h in short:
                deep[(hn, H.hist_name(h), pol, "SIM", "G1")] = dict(spec=sp, user=h, policy=pol, clock="SIM", rtf=0)
    for hn in (("L1.16-16",) if tier == "quick" else ("L1.16-16", "L2")):
        for pol in pols:
            for h in short[:5]:
                deep[(hn, H.hist_name(h), pol, "WALL", "G1")] = dict(spec=core[hn], user=h, policy=pol, clock="WALL")
    # second episodes under preemption (stale state that survives a reset / re-arming in the wrong lifecycle call)
    two_deep = [[["reset"], ["step"], ["stop"], ["reset"], ["step"], ["stop"]], [["run"], ["stop"], ["run"], ["stop"]], [["reset"], ["step"], ["reset"], ["step"], ["stop"]]]
    for hn in ("L2",) if tier == "quick" else list(core):
        for pol in pols:
            for h in two_deep:
                deep[(hn, H.hist_name(h), pol, "SIM", "G1")] = dict(spec=core[hn], user=h, policy=pol, clock="SIM", rtf=0)
    # the user pauses until all workers have gone quiet before the next lifecycle call (only on graphs that do go quiet:
    # no free-running source): stop()/reset() must also work against idle workers
    idle_h = [[["reset"], ["idle"], ["stop"], ["reset"], ["stop"]], [["run"], ["idle"], ["stop"], ["run"], ["stop"]], [["reset"], ["step"], ["idle"], ["reset"], ["step"], ["stop"]]]
    for hn, sp in (("L0", more["L0"]), ("L5", more["L5"]), ("L2", core["L2"])):
        if tier == "quick" and hn == "L2":
            continue
        for pol in pols:
            for h in (idle_h[:2] if tier == "quick" else idle_h):
                deep[(hn, H.hist_name(h), pol, "SIM", "G1")] = dict(spec=sp, user=h, policy=pol, clock="SIM", rtf=0)
    # messages in flight across stop(): throttled simulated clock (connections sleep for the communication delay), long
    # delay, early stop, and a second episode long enough for a left-over sleeper to land in it
    for cm in ((16,) if tier == "quick" else (16, 32, 128)):
        n2 = cm // 4 + 4
        for h1 in (1, 2):
            h = [["reset"]] + [["step"]] * h1 + [["stop"], ["reset"]] + [["step"]] * n2 + [["stop"]]
            for pol in pols:
                for rtf in (1, 8):
                    deep[(f"L6.{cm}", H.hist_name(h), pol, f"SIM.rtf{rtf}", "G1")] = dict(spec=H.L6(cm), user=h, policy=pol, clock="SIM", rtf=rtf)
    if tier == "thorough":
        for hn, sp in more.items():
            for pol in pols:
                for h in short:
                    deep[(hn, H.hist_name(h), pol, "SIM", "G1")] = dict(spec=sp, user=h, policy=pol, clock="SIM", rtf=0)
    # wide: every history of <= 2 episodes at d = 0 under every base policy and both clocks
    allh = dict(core)
    allh.update(more)
    sd = seed()
    for hn, sp in allh.items():
        for hi, h in enumerate(two):
            if tier == "quick" and (hi + sd) % 2 == 1 and hn not in ("L1.16-16", "L2"):
                continue  # rotated slice in the quick tier (reported as such)
            for pol in pols:
                for clock in ("SIM", "WALL"):
                    wide[(hn, H.hist_name(h), pol, clock, "G1")] = dict(spec=sp, user=h, policy=pol, clock=clock, rtf=0)
                # throttled simulated clock: sleeping tasks (throttle) survive lifecycle calls
                wide[(hn, H.hist_name(h), pol, "SIM.rtf8", "G1")] = dict(spec=sp, user=h, policy=pol, clock="SIM", rtf=8)
    g2 = {}
    g2h = [[["run"], ["stop"]], [["reset"], ["step"], ["stop"]], [["reset"], ["stop"]], [["reset"], ["stop"], ["reset"], ["stop"]], [["run"], ["stop"], ["run"], ["stop"]]]
    for hn in ("L0", "L1.16-16"):
        for pol in ("prio", "rr"):
            for h in g2h:
                g2[(hn, H.hist_name(h), pol, "SIM", "G2")] = dict(spec=allh[hn], user=h, policy=pol, clock="SIM", rtf=0, gran="G2")
    return deep, wide, g2


def _report(rep, name, out, bound):
    tot = collections.Counter()
    viol = []
    for key, st in out.items():
        tot["execs"] += st["execs"]
        tot["points"] += st["points"]
        tot["steps"] += st["steps"]
        tot["deadlocks"] += st["deadlocks"]
        tot["scheds"] += len(st["sigs"])
        tot["outcomes"] += len(st["outcomes"])
        tot["cap_hit"] += int(st["cap_hit"])
        for v in st["violations"]:
            viol.append((key, v))
    rep.add(states=tot["points"] + tot["execs"], transitions=tot["steps"], traces=tot["execs"])
    rep.section(
        name, jobs=len(out), executions=tot["execs"], decision_points=tot["points"], scheduled_thread_steps=tot["steps"], bound_completed=bound,
        distinct_schedules=tot["scheds"], distinct_outcomes_summed=tot["outcomes"], deadlocked_executions=tot["deadlocks"], cap_hit=bool(tot["cap_hit"]),
    )
    if tot["cap_hit"]:
        rep.not_exhaustive(f"{name}: execution cap hit")
    seen = collections.Counter()
    for key, v in viol:
        sig = f"{key[0]}:{key[3]}:{v['signature']}"
        seen[sig] += 1
        if seen[sig] <= 2:
            rep.violation(v["signature"] + "@" + ":".join(map(str, key)), dict(job=key, detail=v["detail"]), replay=dict(kind="e1", judge=JUDGE, job=v["job"]))
    return tot


def run(tier, rep):
    deep, wide, g2 = _jobs(tier)
    with Pool() as pool:
        out_w = explore_many(pool, wide, 0, JUDGE)
        _report(rep, "wide_d0_all_histories", out_w, 0)
        out_d = explore_many(pool, deep, 1, JUDGE)
        _report(rep, "deep_G1_d1", out_d, 1)
        if tier == "thorough":
            # two deviations on the 2-node harnesses and the four shortest histories (about 5 000 schedules per job)
            d2 = {k: v for k, v in deep.items() if k[0] in ("L1.16-16", "L0") and k[1] in ("r.", "Rs.", "R.", "rr.") and k[3] == "SIM" and k[2] in ("prio", "rr")}
            out_d2 = explore_many(pool, d2, 2, JUDGE)
            _report(rep, "deep_G1_d2", out_d2, 2)
        # line-level granularity (G2): the check-then-act windows inside stop()/_async_step are one or two bytecode lines wide
        l0 = {k: v for k, v in g2.items() if k[0] == "L0"}
        # L0 (user thread + one worker): ALL schedules at line granularity, no deviation bound, pruned by abstract state
        # (program counters of both threads + shared handshake state with saturating counters, vf/asyncx._digest)
        from vf.explore import explore_stateful_bfs

        l0_all = {k: v for k, v in l0.items() if k[2] == "prio"}  # the base policy only orders the search here
        out_s = explore_stateful_bfs(pool, l0_all, JUDGE, cap=20000 if tier == "quick" else 80000)
        _report(rep, "G2_stateful_L0_all_schedules", out_s, "unbounded (state-pruned)")
        rep.section("G2_stateful_L0_all_schedules", abstract_states=sum(st["abstract_states"] for st in out_s.values()), pruned_revisits=sum(st["pruned"] for st in out_s.values()))
        # L5 (supervisor feeding a consumer: 4 threads) at granularity G1: all schedules of the short histories
        l5h = [[["reset"], ["stop"]]] if tier == "quick" else [[["reset"], ["stop"]], [["run"], ["stop"]], [["reset"], ["step"], ["stop"]]]
        l5 = {("L5", H.hist_name(h), "prio", "SIM", "G1"): dict(spec=H.L5(), user=h, policy="prio", clock="SIM", rtf=0) for h in l5h}
        out_s = explore_stateful_bfs(pool, l5, JUDGE, cap=12000 if tier == "quick" else 60000)
        _report(rep, "G1_stateful_L5_all_schedules", out_s, "unbounded (state-pruned)")
        rep.section("G1_stateful_L5_all_schedules", abstract_states=sum(st["abstract_states"] for st in out_s.values()))
        # L5 at line granularity under the mirror-image base policy "workers first" (the user thread only runs when no
        # worker can): one preemption of the user inside stop()/reset() then lets an *idle* worker run a whole task before
        # the user's next line. Only reset-driven histories: under run() the supervisor free-runs and workers-first would
        # starve the user by construction.
        wfh = [[["reset"], ["stop"], ["reset"], ["stop"]], [["reset"], ["step"], ["stop"], ["reset"], ["step"], ["stop"]]]
        wf = {("L5", H.hist_name(h), "wf", "SIM", "G2"): dict(spec=H.L5(), user=h, policy="wf", clock="SIM", rtf=0, gran="G2") for h in wfh}
        out_wf = explore_many(pool, wf, 1, JUDGE)
        _report(rep, "G2_line_level_L5_workers_first", out_wf, 1)
        if tier == "thorough":  # the same job without relying on the abstraction: deviation-bounded
            l0_run = {k: v for k, v in l0.items() if k[1] == "r."}
            out_g = explore_many(pool, l0_run, 3, JUDGE)
            _report(rep, "G2_line_level_L0_run_stop", out_g, 3)
            out_g = explore_many(pool, {k: v for k, v in l0.items() if k not in l0_run}, 2, JUDGE)
            _report(rep, "G2_line_level_L0_other", out_g, 2)
        rest = {k: v for k, v in g2.items() if k[0] != "L0"}
        # a new episode after a stop() that was preempted at line level (state flips vs queued _stopping tasks)
        rest2 = {k: v for k, v in rest.items() if k[1] in ("R.R.", "r.r.")}
        out_g0 = explore_many(pool, rest2, 0 if tier == "quick" else 1, JUDGE)
        _report(rep, "G2_line_level_L1_two_episodes", out_g0, 0 if tier == "quick" else 1)
        rest1 = {k: v for k, v in rest.items() if k not in rest2}
        out_g0 = explore_many(pool, rest1, 0 if tier == "quick" else 1, JUDGE)
        _report(rep, "G2_line_level_L1", out_g0, 0 if tier == "quick" else 1)
    some = list(deep.items())[:2]
    for k, j in some:
        rep.sample(dict(job=":".join(map(str, k)), user=j["user"], spec=j["spec"]))
    rep.section("family", harnesses=sorted({k[0] for k in list(deep) + list(wide)}), policies=["prio(user-first)", "rr", "rev", "wf(workers-first, L5 only)"], clocks=["SIM rtf=0", "SIM rtf=8 (throttled, virtual sleeps)", "WALL (virtual time)"],
                histories_wide=len({k[1] for k in wide}), histories_deep=len({k[1] for k in deep}), quick_slice="wide histories rotated by VERIF_SEED on the non-core harnesses" if tier == "quick" else "full")
    if tier == "quick":
        rep.not_exhaustive("quick tier: d<=1 on core harnesses, d=0 elsewhere, rotated history slice")
    rep.assume(
        "interleavings within the stated deviation bound of three base policies at granularity G1 (G2 line level on L0/L1)",
        "supported graph class of DESIGN section 7 (token starvation excluded)",
        "GIL-atomic deque/attribute operations; JAX runtime threads not scheduled",
    )


def replay(body):
    from vf.asyncx import run_job
    from vf.judges import judge_lifecycle

    job = body["replay"]["job"]
    res = run_job(job)
    v = judge_lifecycle(job, res)
    print("replayed schedule: finished =", res["finished"], "violations =", [s for s, _ in v["violations"]])
    if res["deadlock"]:
        print("blocked threads:", res["deadlock"]["blocked"])
    return not v["violations"]
