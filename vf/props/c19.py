"""C19 RL environment wrappers account episodes, actions and statistics correctly (DESIGN section 6, C19).

Explicit-state breadth-first enumeration of ALL action sequences up to a depth over a 7-symbol alphabet through real
rex.rl wrapper stacks on a real compiled 2-node rex Graph; the probe environment's reward / terminated / truncated are
functions of the action, so the explorer chooses the environment's answers.  Every node of the tree (every prefix of every
history) is compared with the plain-Python reference bookkeeping of vf/c19_ref.py.  The stateless action transforms are
covered by a full product bounds x transform x action lattice (incl. +-1e6, +-inf).
"""
import collections
import os

from vf.common import Pool, nproc, seed

DEPTH = dict(quick=4, thorough=6)


def stacks():
    S = []

    def add(name, layers, env=None, **kw):
        S.append(dict(name=name, layers=layers, env=env or {}, **kw))

    # Environment alone: step == graph.step(gs, ss, output=get_output(a)) (checked through the public graph API and the model)
    for oi in (0, 1):
        for eps in (0, 1):
            add(f"env.only_init{oi}.eps{eps}", [], dict(only_init=bool(oi), starting_eps=eps), direct=True)
    # each wrapper alone
    for fx in ("fixed", "fresh"):
        for oi in (0, 1):
            add(f"auto.{fx}.only_init{oi}", [f"auto:{fx}"], dict(only_init=bool(oi), params_empty=(fx == "fresh")))
    add("log", ["log"])
    add("squash1", ["squash:1"])
    add("squash0", ["squash:0"])
    add("clip", ["clip"])
    for n in (1, 2, 3):
        add(f"vec{n}.nobs", [f"vec:{n}", "nobs"])
        add(f"vec{n}.nrew", [f"vec:{n}", "nrew:0.5"])
    add("vec2.nrew.g99", ["vec:2", "nrew:0.99"], rot=[0, 4])
    add("vec2.nobs.nrew.clip1", ["vec:2", "nobs:1.0", "nrew:0.5:1.0"], rot=[0, 2])  # clip value 1: the clipping branch is active
    # partial stacks
    add("auto.fixed.log", ["auto:fixed", "log"])
    add("auto.fresh.log", ["auto:fresh", "log"], dict(params_empty=True))
    add("auto.fixed.vec2.nobs.nrew", ["auto:fixed", "vec:2", "nobs", "nrew:0.5"], rot=[0, 5])
    # the PPO stack of rex.ppo.train: AutoReset -> Log -> Squash -> Vec -> NormalizeObs -> NormalizeReward
    for fx in ("fixed", "fresh"):
        for sq in (1, 0):
            add(f"ppo.{fx}.squash{sq}.vec2", [f"auto:{fx}", "log", f"squash:{sq}", "vec:2", "nobs", "nrew:0.5"], dict(params_empty=(fx == "fresh")))
    add("ppo.fixed.squash1.vec3", ["auto:fixed", "log", "squash:1", "vec:3", "nobs", "nrew:0.99"])
    add("ppo.fresh.squash0.vec1", ["auto:fresh", "log", "squash:0", "vec:1", "nobs", "nrew:0.99"], dict(params_empty=True))
    add("ppo.fresh.squash1.vec2.rot", ["auto:fresh", "log", "squash:1", "vec:2", "nobs", "nrew:0.5"], dict(params_empty=True, only_init=True), rot=[0, 6])
    return S


def _cost(spec):
    n = [int(x.split(":")[1]) for x in spec["layers"] if x.startswith("vec:")]
    return (n[0] if n else 0) * 10 + len(spec["layers"])


def run(tier, rep):
    from vf import c19_run as RUN

    depth = DEPTH[tier]
    sd = seed()
    S = sorted(stacks(), key=_cost, reverse=True)
    kinds = list(RUN.KINDS)
    only = os.environ.get("VERIF_C19_ONLY")  # debugging aid: comma separated substrings of stack names / "act"
    if only:
        pats = only.split(",")
        S = [sp for sp in S if any(p_ in sp["name"] for p_ in pats)]
        kinds = kinds if "act" in pats else []
        rep.not_exhaustive(f"VERIF_C19_ONLY={only}: debugging subset, not the registered check")
    tasks = [("vf.c19_run", "run_stack", dict(spec=sp, depth=depth, key=1000 * sd + i)) for i, sp in enumerate(S)]
    sq_tasks = [dict(kind=k, key=sd) for k in kinds]
    out = []
    with Pool(min(nproc(), 8)) as pool:  # 8 workers: each one compiles the probe graph once (~10 s CPU, ~0.5 GB)
        # one imap per function name: the stack tasks first (longest first), the product family after
        for r in pool.imap("vf.c19_run", "run_stack", [t[2] for t in tasks]):
            out.append(r)
        sq = list(pool.imap("vf.c19_run", "run_squash", sq_tasks))
    tot = collections.Counter()
    for r in sorted(out, key=lambda r: r["name"]):
        for k in ("nodes", "steps", "leaves", "states", "dones", "resets", "clipped_obs", "clipped_rew"):
            tot[k] += r[k]
        rep.section("stack:" + r["name"], histories=r["leaves"], tree_nodes=r["nodes"], distinct_reference_states=r["states"], depth_completed=r["depth"],
                    episode_ends=r["dones"], auto_resets=r["resets"], clipped_obs=r["clipped_obs"], clipped_rewards=r["clipped_rew"],
                    worst_error_over_tolerance=round(max(r["margins"].values()), 4) if r["margins"] else 0.0, wall_s=r["wall"])
        for v in r["violations"]:
            rep.violation(v["signature"], v["what"], replay=v["replay"])
    for r in sq:
        rep.section(r["name"], cases=r["cases"], comparisons=r["compared"], in_bounds_checked=r["in_bounds_checked"], saturated_at_a_bound=r["saturated"],
                    inverse_domain_points=r.get("inverse_domain", 0), worst_error_over_tolerance=round(max(r["margins"].values()), 4) if r["margins"] else 0.0, wall_s=r["wall"])
        tot["sq_cases"] += r["cases"]
        tot["sq_cmp"] += r["compared"]
        for v in r["violations"]:
            rep.violation(v["signature"], v["what"], replay=v["replay"])
    rep.add(states=tot["states"] + tot["sq_cases"], transitions=tot["steps"] + tot["sq_cmp"], traces=tot["leaves"] + tot["sq_cases"])
    rep.section("family", alphabet=list(RUN.ALPHABET), meaning="7 terminates, 8 truncates, reward = action; -9/8 are the action bounds and are commanded through +-1e6 / +-inf when an action wrapper is in the stack",
                depth=depth, stacks=len(S), histories_per_stack=len(RUN.ALPHABET) ** depth, tree_nodes_total=tot["nodes"], episode_ends_total=tot["dones"],
                auto_resets_total=tot["resets"], vector_env_rule="environment i plays the symbol rotated by rot[i] (default 0,1,3)",
                action_transform_bounds=len(RUN.BOUNDS1) + len(RUN.BOUNDS2), action_transform_lattice=len(RUN.XS) + len(RUN.FRACS))
    if S:
        rep.sample(dict(stack=S[0], example_history=[0.5, 7.0, -9.0, 8.0], note="every prefix of every history over the alphabet is compared"))
        rep.sample(dict(stack=S[-1]))
    rep.sample(dict(action_transform_case=dict(kind="squash:1", low=[-0.001], high=[1000.0], v=["-inf", -1e6, 0.25, "inf"])))
    if tier == "quick":
        rep.not_exhaustive(f"quick tier: all histories up to depth {depth} (thorough: depth {DEPTH['thorough']}); every stack and the whole action-transform product are covered in both tiers")
    rep.assume(
        "rex.graph.Graph.step/init/reset are the trusted base of the Environment clause (their own correctness is C06-C09); the probe graph is 2 nodes at equal rates with deterministic delays",
        "identity pre/post-step hooks; one random draw (u, uid) per initial state is read off the real run, and checked to be consistent, fresh and unobserved elsewhere",
        "running statistics are compared with the float64 mean/variance of everything seen so far including rex's pseudo-observation of weight 1e-4 (mean 0, var 1); float32 tolerances are derived in vf/c19_ref.py",
        "vectorised stacks: the joint action space is explored along environment-0 histories with fixed rotations for the other environments, not as a full product",
        "the tree is executed through jit(vmap(step)) over chunks of nodes: the same rex code, traced once per stack",
    )


def replay(body):
    from vf import c19_run as RUN

    rp = body["replay"]
    if rp["kind"] == "bfs":
        r = RUN.run_stack(dict(spec=rp["spec"], depth=len(rp["path"]), key=rp["key"], path=rp["path"]))
    else:
        r = RUN.run_squash(dict(kind=rp["layer"], key=rp["key"], only=rp["only"]))
    for v in r["violations"]:
        print("replayed:", v["signature"], str(v["what"])[:400])
    print("replay: violations =", dict(r["violation_counts"]))
    return not r["violations"]
