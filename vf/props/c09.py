"""C09 Compiled execution is a pure function, independent of the driving API (DESIGN section 6, C09)."""
from vf.common import Pool, seed
from vf.fcomp import all_sources
from vf.props.c07 import _collect


def run(tier, rep):
    sd = seed()
    srcs = {s["name"]: s for s in all_sources("quick", sd)}
    picks = [("async.H4.2eps", "MCS", True), ("gen.3n.fan.cyc", "GENERATIONAL", True), ("raw.abc.w2-1", "TOPOLOGICAL", False), ("async.H1.2eps", "GENERATIONAL", False), ("raw.fan.burst", "MCS", False), ("async.H3.2eps", "MCS", True)]
    if tier == "quick":
        picks = picks[:4]
    depth = 3 if tier == "quick" else 4
    tasks = [dict(src=srcs[n], mode=m, prune=p, depth=depth, eps=[0] if tier == "quick" else [0, 1], seed=sd) for n, m, p in picks if n in srcs]
    with Pool(maxtasks=4) as pool:
        results = list(pool.imap("vf.c09_task", "c09_task", tasks))
    _collect(rep, results, "api_histories")
    rep.section("bfs", graphs=[f"{n}:{m}:{'prune' if p else 'noprune'}" for n, m, p in picks], depth_completed=depth,
                alphabet=["run", "run[eager]", "reset", "step", "step[eager]", "step(own result)", "rollout(m) m=1..3", "rollout(m, full)[-1] + every row"],
                distinct_states=sum(r["states"] for r in results), call_sequences=sum(r["paths"] for r in results),
                extra=["vmapped rows vs single runs (3 different rng/eps/step)", "init starting_eps/step clipping vs clipped twin", "rollout clipping", "params override seen by the steps"])
    for r in results[:2]:
        rep.sample(dict(graph=r["name"], states=r["states"], sequences=r["paths"]))
    if tier == "quick":
        rep.not_exhaustive("quick tier: 4 graphs, depth 3, episode 0")
    rep.assume("a state is (kind, number of completed partitions): 'clean' after run/rollout, 'open' after reset/step (supervisor step pending); call sequences that misuse the API (run on an open state, step on a clean state > 0) are not part of the alphabet",
               "whole GraphState pytrees are compared leaf by leaf (bitwise)")


def replay(body):
    from vf.c09_task import c09_task

    r = c09_task(body["replay"])
    print("violations:", [(s, str(w)[:500]) for s, w, _ in r["violations"]][:6])
    return not r["violations"]
