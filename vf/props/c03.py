"""C03 Recorded episodes are causal and loss-free on every connection (DESIGN section 6, C03)."""
from vf import harness as H
from vf.common import Pool, seed
from vf.e1common import EPISODE, family_slice, replay_e1, report
from vf.explore import explore_many, run_family

JUDGE = ("vf.judges", "judge_c03")
POLS = ["prio", "rr", "rev"]


def run(tier, rep):
    sd = seed()
    members, fam_size = family_slice(tier, quick_mod=24)
    fam_jobs = [(n, dict(spec=s, user=EPISODE, policy=POLS[(i + sd) % 3])) for i, (n, s) in enumerate(members)]
    dec = H.decimal_family()
    seeds = [sd, sd + 1] if tier == "quick" else [sd + k for k in range(6)]
    dec_jobs = [(f"{n}#seed{k}", dict(spec=s, user=EPISODE, policy=POLS[(i + k) % 3], seed=k)) for i, (n, s) in enumerate(dec) for k in seeds]
    # schedules: deviation-bounded exploration on harnesses whose scripts contain ties, overruns and late messages
    tie = [1, 1, 3, 1]  # a's 3rd message arrives exactly at a step start of the consumer on the dyadic lattice
    deep = {}
    hs = {"H1": H.H1((1, 6), tie), "H2.LATEST": H.H2("LATEST", (1, 6), tie), "H2.BUFFER": H.H2("BUFFER", (1, 6), tie)}
    if tier == "thorough":
        hs.update({"H3": H.H3((1, 6), tie), "H4": H.H4((1, 6), tie), "H5": H.H5((1, 3), tie)})
    user = [["reset"], ["step"], ["step"], ["step"], ["stop"]]
    for hn, sp in hs.items():
        for pol in POLS:
            deep[(hn, pol, "SIM")] = dict(spec=sp, user=user, policy=pol)
    wall = {}
    for hn, sp in {"L1": H.L1(16, 8, 1, 2, 1, 2), "L2": H.L2(16, 8), "H3": H.H3()}.items():
        for pol in POLS:
            wall[(hn, pol, "WALL")] = dict(spec=sp, user=[["reset"], ["step"], ["step"], ["step"], ["stop"]], policy=pol, clock="WALL")
    # expected delays changed between two episodes of one graph object (BUFFER's expected arrival must follow)
    sjobs = []
    two = lambda op: [["reset"]] + [["step"]] * 3 + [["stop"], op, ["reset"]] + [["step"]] * 4 + [["stop"]]  # noqa
    for bi, (bn, b) in enumerate([x for x in H.fasync_bases() if x[0].startswith(("chain.NB", "chainX.NB", "fan.NB"))]):
        if tier == "quick" and (bi + sd) % 4 != 0:
            continue
        for op in (["set_delay", "edge", 0, 9], ["set_delay", "edge", 0, 0], ["set_delay", "node", "a", 5]):
            sjobs.append((f"{bn}|{op[1]}{op[2]}={op[3]}", dict(spec=b, user=two(op), policy=POLS[(bi + sd) % 3])))
    bound = 1 if tier == "quick" else 2
    with Pool() as pool:
        st = run_family(pool, sjobs, JUDGE)
        report(rep, "set_delay_between_episodes_d0", st, 0, JUDGE, family=True)
        st = run_family(pool, fam_jobs, JUDGE)
        report(rep, "family_dyadic_d0", st, 0, JUDGE, family=True)
        st = run_family(pool, dec_jobs, JUDGE)
        report(rep, "family_decimal_normal_delays_d0", st, 0, JUDGE, family=True)
        out = explore_many(pool, deep, 1, JUDGE)
        report(rep, "schedules_sim_d1", out, 1, JUDGE)
        if tier == "thorough":
            d2 = {k: v for k, v in deep.items() if k[0] in ("H1", "H2.LATEST", "H2.BUFFER")}
            out = explore_many(pool, d2, 2, JUDGE)
            report(rep, "schedules_sim_d2", out, 2, JUDGE)
        out = explore_many(pool, wall, 1, JUDGE)
        report(rep, "schedules_wall_clock", out, 1, JUDGE)
    rep.section("family", dyadic_family_size=fam_size, dyadic_members_run=len(fam_jobs), decimal_members=len(dec), decimal_seeds=seeds,
                quick_slice="nominal members + deviations with index = VERIF_SEED mod 24" if tier == "quick" else "full")
    for n, j in fam_jobs[:2] + dec_jobs[:1]:
        rep.sample(dict(member=n, spec=j["spec"], user=j["user"], policy=j["policy"]))
    if tier == "quick":
        rep.not_exhaustive("quick tier: rotated slice of the dyadic family; d<=1")
    rep.assume("invariants are evaluated on the recorded values (the values rex decided on); phases are taken from the record's own info",
               "supervisor rows after the first unexecuted one are not required to carry a meaningful window (never executed)",
               "episodes of 5 supervisor steps; <= 3 nodes; single delay deviations at the first 4 ticks/messages")


def replay(body):
    return replay_e1(body)
