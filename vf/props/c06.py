"""C06 Every scheduled step executes the user's step function exactly once (DESIGN section 6, C06)."""
from vf import harness as H
from vf.common import Pool, seed
from vf.e1common import EPISODE, family_slice, replay_e1, report
from vf.explore import explore_many, run_family

JUDGE = ("vf.judges", "judge_once")
POLS = ["prio", "rr", "rev"]


def run(tier, rep):
    sd = seed()
    members, fam_size = family_slice(tier, quick_mod=48)
    drivers = [EPISODE, [["run"]] * 4 + [["stop"]], [["reset"], ["step"], ["step_override"], ["step"], ["step_override"], ["stop"]],
               [["reset"], ["step"], ["step"], ["stop"], ["reset_carry"], ["step"], ["step"], ["stop"]]]
    fam_jobs = [(n, dict(spec=s, user=drivers[(i + sd) % 4], policy=POLS[(i // 3 + sd) % 3])) for i, (n, s) in enumerate(members)]
    # warm-up with a partial per-node profile dict (profiling test-runs the step: only the listed nodes may be run)
    for i, (n, s) in enumerate(members):
        if i % 40 == 0:
            fam_jobs.append((n + "|partial-profile", dict(spec=s, user=EPISODE, policy=POLS[i % 3], profile={sorted(s["nodes"])[0]: False})))
    deep = {}
    hs = {"L1": H.L1(16, 16), "L2": H.L2(16, 8), "H3": H.H3((1, 6))}
    if tier == "thorough":
        hs.update({"H1": H.H1((1, 6)), "H4": H.H4((1, 6)), "L0": H.L0()})
    users = {"Rss.": [["reset"], ["step"], ["step"], ["stop"]], "rr.": [["run"], ["run"], ["stop"]], "Ros.": [["reset"], ["step_override"], ["step"], ["stop"]],
             "Rs.Rs.": [["reset"], ["step"], ["stop"], ["reset"], ["step"], ["stop"]], "Rs.Cs.": [["reset"], ["step"], ["stop"], ["reset_carry"], ["step"], ["stop"]]}
    for hn, sp in hs.items():
        for pol in POLS:
            for un, u in users.items():
                if tier == "quick" and un in ("Rs.Rs.", "Rs.Cs.") and hn != "L1":
                    continue  # two-episode histories on one harness only in the quick tier
                deep[(hn, un, pol)] = dict(spec=sp, user=u, policy=pol)
    jit_jobs = []
    jl = [("L2", H.L2(16, 8)), ("H3", H.H3((1, 6))), ("H5", H.H5())]
    for i, (hn, sp) in enumerate(jl if tier == "quick" else jl + [("H1", H.H1()), ("H4", H.H4()), ("L1", H.L1())]):
        for di, u in enumerate(drivers):
            jit_jobs.append((f"{hn}.jit.driver{di}", dict(spec=sp, user=u, policy=POLS[(i + di) % 3], jit_step=True)))
    bound = 1 if tier == "quick" else 2
    with Pool() as pool:
        st = run_family(pool, fam_jobs, JUDGE)
        report(rep, "threaded_family_d0", st, 0, JUDGE, family=True)
        out = explore_many(pool, deep, 1, JUDGE)
        report(rep, "threaded_schedules_d1", out, 1, JUDGE)
        if tier == "thorough":
            d2 = {k: v for k, v in deep.items() if k[0] in ("L1", "L2") and k[1] in ("Rss.", "rr.", "Ros.")}
            out = explore_many(pool, d2, 2, JUDGE)
            report(rep, "threaded_schedules_d2", out, 2, JUDGE)
        st = run_family(pool, jit_jobs, JUDGE, chunk=1)
        report(rep, "threaded_jit_step_io_callback", st, 0, JUDGE, family=True)
    from vf.props import c06_compiled

    with Pool(maxtasks=4) as pool:
        c06_compiled.run(tier, rep, pool)
    rep.section("family", dyadic_family_size=fam_size, members_run=len(fam_jobs), drivers=["reset/step", "run", "reset/step with overrides", "second episode reset from the carried-over graph state"])
    for n, j in fam_jobs[:2]:
        rep.sample(dict(member=n, spec=j["spec"], user=j["user"]))
    if tier == "quick":
        rep.not_exhaustive("quick tier: rotated slice of the family; d<=1")
    rep.assume("the probe's host-side trace is the counter (plain Python with jit_step=False, ordered io_callback when jitted)",
               "the supervisor's step counts as executed when the user thread ran it (run / step without override)")


def replay(body):
    if body["replay"].get("kind") == "compiled":
        from vf.props import c06_compiled

        return c06_compiled.replay(body)
    return replay_e1(body)
