"""C17 Parameter transforms are invertible and compose in order (DESIGN section 6, C17).

Bounded-exhaustive enumeration (engine E2): every parameter tree of a small grammar x every chain of length <= 3
over {Identity, Exponential, Denormalize, Shared(where <- replace)} x every leaf value of a 6-element set x every
ordered (min, max) pair of that set, run on the real `rex.base` transforms and compared with the plain numpy model
of vf/c17_ref.py; Extend with every mask of every tree.  See vf/c17_ref.py (reference, enumeration) and
vf/c17_real.py (runner, comparison).  Main process only describes sub-families (tasks); workers expand and run them.
"""
import collections

from vf import c17_ref as R
from vf.common import Pool, nproc, seed

MOD = "vf.c17_real"


def _tasks(tier):
    """Returns (tasks, families: name -> dict(family_size=..., note=...)).  Every family is finite and fully listed here."""
    sd = seed()
    thorough = tier == "thorough"
    s2, s3 = R.shapes(2), R.shapes(3)
    deep = [s for s in s3 if s not in s2]
    alpha = {R.shape_str(s): R.alphabet_size(s) for s in s3}
    a = lambda s: alpha[R.shape_str(s)]  # noqa
    tasks = []
    fam = collections.OrderedDict()

    def add(name, full, new, note="complete"):
        for t in new:
            t["name"] = name
        tasks.extend(new)
        fam[name] = dict(family_size=full, tier_covers=note)

    def est(t):
        s = t["shape"]
        if t["gen"] == "chain":
            c = sum(a(s) ** k for k in t["lens"]) / (t["slice"][0] * 2 if t.get("slice") else 1)
        elif t["gen"] == "nested":
            c = 10 * a(s) ** 2 / (t["slice"][0] * 2 if t.get("slice") else 1)
        elif t["gen"] == "bare":
            c = a(s)
        elif t["gen"] == "den":
            c = 3
        else:
            c = len(R.masks(s)) * (1, 5, 17)[t["n_other"]] * 0.5
        return c * len(t.get("rots", [0])) * len(t.get("prots", [0]))

    # ---- A. chains, vector leaves: one case carries all 6 leaf values x all 15 bound pairs per leaf -------------
    add("chain.vec.depth<=2.len<=3", sum(a(s) ** k for s in s2 for k in range(4)), [dict(gen="chain", shape=s, kind="vec", lens=[0, 1, 2, 3]) for s in s2])
    add("chain.vec.depth3.len<=2", sum(a(s) ** k for s in deep for k in range(3)), [dict(gen="chain", shape=s, kind="vec", lens=[0, 1, 2]) for s in deep])
    if thorough:
        add("chain.vec.depth3.len3", sum(a(s) ** 3 for s in deep), [dict(gen="chain", shape=s, kind="vec", lens=[3]) for s in deep])
    else:
        add("chain.vec.depth3.len3", sum(a(s) ** 3 for s in deep), [dict(gen="chain", shape=s, kind="vec", lens=[3], slice=[16, sd % 16]) for s in deep],
            note=f"slice: Shared sources restricted to leaves, every 16th chain (residue VERIF_SEED % 16 = {sd % 16})")

    # ---- B/C/D. scalar leaves (float32 scalars, Python floats): value rotations x bound-pair rotations ---------
    rots = list(range(6)) if thorough else [sd % 6, (sd + 3) % 6]
    prots = list(range(15)) if thorough else [sd % 15, (sd + 8) % 15]
    full_b = sum(6 * (15 * (a(s) ** k - (a(s) - 1) ** k) + (a(s) - 1) ** k) for s in s3 for k in range(3))
    for kind in ("f32", "py"):
        if thorough:
            new = [dict(gen="chain", shape=s, kind=kind, lens=[0, 1, 2], rots=[r], prots=prots) for s in s3 for r in range(6)]
            add(f"chain.{kind}.len<=2", full_b, new)
        else:
            new = [dict(gen="chain", shape=s, kind=kind, lens=[0, 1, 2], rots=list(range(6)), prots=prots) for s in s2]
            add(f"chain.{kind}.len<=2", full_b, new, note=f"slice: trees of depth <= 2, all 6 value rotations, bound rotations {prots}")
    add("bare.vec", sum(a(s) for s in s3), [dict(gen="bare", shape=s, kind="vec") for s in s3])
    for kind in ("f32", "py"):
        add(f"bare.{kind}", sum(6 * (15 + a(s) - 1) for s in s3), [dict(gen="bare", shape=s, kind=kind, rots=rots, prots=prots) for s in s3],
            note="complete" if thorough else f"slice: value rotations {rots}, bound rotations {prots}")
    add("den.vec", len(s3), [dict(gen="den", shape=s, kind="vec") for s in s3])
    for kind in ("f32", "py"):
        add(f"den.{kind}", 15 * len(s3), [dict(gen="den", shape=s, kind=kind, prots=prots) for s in s3], note="complete" if thorough else f"slice: bound rotations {prots}")

    # ---- F. nested chains: a chain (two members, every ordered pair of the alphabet) as a member of a chain ----
    nest_sz = lambda shp: sum(10 * a(s) ** 2 for s in shp)  # noqa  10 outer forms, see vf.c17_ref.nested_chains
    add("nested.vec.depth<=2", nest_sz(s2), [dict(gen="nested", shape=s, kind="vec") for s in s2])
    if thorough:
        add("nested.vec.depth3", nest_sz(deep), [dict(gen="nested", shape=s, kind="vec") for s in deep])
    else:
        add("nested.vec.depth3", nest_sz(deep), [dict(gen="nested", shape=s, kind="vec", slice=[24, sd % 24]) for s in deep],
            note=f"slice: Shared sources restricted to leaves, every 24th nested chain (residue VERIF_SEED % 24 = {sd % 24})")
    nprots = [0, 5, 10]
    full_n = sum(6 * (len(nprots) if R.has_den(ch) else 1) for s in s2 for ch in R.nested_chains(s, True))
    for kind in ("f32", "py"):
        if thorough:
            add(f"nested.{kind}.depth<=2", full_n, [dict(gen="nested", shape=s, kind=kind, rots=list(range(6)), prots=nprots) for s in s2])
        else:
            add(f"nested.{kind}.depth<=2", full_n, [dict(gen="nested", shape=s, kind=kind, rots=[sd % 6], prots=[nprots[sd % 3]]) for s in s2],
                note=f"slice: value rotation {sd % 6}, bound rotation {nprots[sd % 3]}")

    # ---- G. Denormalize with very narrow bounds (max - min < 2e-6, see vf.c17_ref.NARROW): grid + round trip ------
    add("den.narrow.vec", len(s3), [dict(gen="den", shape=s, kind="vec", narrow=True) for s in s3])
    for kind in ("f32", "py"):
        np_ = [0, 1, 2] if thorough else [sd % 3]
        add(f"den.narrow.{kind}", 3 * len(s3), [dict(gen="den", shape=s, kind=kind, narrow=True, prots=np_) for s in s3],
            note="complete" if thorough else f"slice: narrow-pair rotation {np_}")

    # ---- E. Extend: every base tree x every mask; alone and inside chains with Denormalize / Exponential ------
    npairs = sum(len(R.masks(s)) for s in s3)
    for kind in ("vec", "f32", "py"):
        n_other = 2 if thorough else (1 if kind == "vec" else 0)
        add(f"extend.{kind}", npairs * 17, [dict(gen="extend", shape=s, kind=kind, n_other=n_other, rots=rots[:1], prots=prots[:1]) for s in s3],
            note="complete (one value/bound rotation)" if thorough else f"slice: Extend with <= {n_other} other chain member(s)")
    tasks.sort(key=est, reverse=True)  # longest first: balanced finish
    info = dict(shapes_depth_le2=len(s2), shapes_depth_le3=len(s3), base_mask_pairs=npairs, max_chain_alphabet=max(alpha.values()))
    return tasks, fam, info


def run(tier, rep):
    tasks, fam, info = _tasks(tier)
    tot = collections.Counter()
    per = {k: collections.Counter() for k in fam}
    obs = collections.Counter()
    seen = collections.Counter()
    # the whole quick tier costs < 3 core-minutes; more than 8 workers only adds import time
    with Pool(min(nproc(), 8 if tier == "quick" else 16)) as pool:
        for agg in pool.imap(MOD, "work", tasks):
            tot.update(agg["n"])
            obs.update(agg["obs"])
            per[agg["name"]].update(agg["n"])
            per[agg["name"]]["enumerated"] += agg["enumerated"]
            for sig, what, case in agg["viol"]:
                seen[sig] += 1
                if seen[sig] <= 2:
                    rep.violation(sig, what, replay=dict(case=case))
    sliced = []
    for k, f in fam.items():
        f["cases_enumerated"] = per[k]["enumerated"]
        f["cases_run"] = per[k]["cases"]
        f["elements_compared"] = per[k]["elements"]
        f["real_calls"] = per[k]["real_calls"]
        if per[k]["enumerated"] != f["family_size"]:
            sliced.append(f"{k}: {per[k]['enumerated']} of {f['family_size']} ({f['tier_covers']})")
    enumerated = sum(p["enumerated"] for p in per.values())
    rep.add(states=tot["elements"], transitions=tot["member_ops"], traces=tot["real_calls"])
    rep.section("enumeration", **info, values=R.VALUES, bound_pairs=len(R.PAIRS), grid=R.GRID, tasks=len(tasks), cases_enumerated=enumerated,
                cases_run=tot["cases"], cases_skipped_denormalize_on_leafless_tree=tot["den_on_leafless"],
                chains_apply_only_because_a_shared_slot_is_occupied=tot["shared_slot_occupied"],
                elements_compared=tot["elements"], elements_not_demanded_overflow_or_outside_domain=tot["skipped_elements"],
                chains_len_ge2_where_reversed_order_gives_a_different_result=tot["order_sensitive"],
                nested_chains_round_trip_checked=tot["nested"],
                nested_chains_where_first_to_last_inversion_of_the_inner_chain_gives_a_different_result=tot["nested_inner_inv_order_sensitive"],
                narrow_bound_pairs=R.NARROW)
    rep.section("families", **fam)
    rep.section("observations_not_part_of_the_property", **dict(obs))
    for t in (tasks[0], tasks[len(tasks) // 2], tasks[-1]):
        cs = R.expand(t)
        c = cs[len(cs) // 2]
        rep.sample(dict(c, shape=R.shape_str(c["shape"]), chain=R.chain_str(c["chain"]) if "chain" in c else None, mask=R.shape_str(c["mask"]) if "mask" in c else None))
    if sliced:
        rep.not_exhaustive(f"{tier} tier slices: " + "; ".join(sliced))
    rep.assume(
        "tree grammar: leaf | None | dict of <= 2 | 2-field flax dataclass, depth <= 3; leaves float32 (6,1) columns, float32 scalars or Python floats",
        "leaf values {-2,-1,0,.5,1,3}, bounds = the 15 ordered pairs of that set; all dyadic, so Denormalize.apply is compared exactly",
        "tolerance elsewhere = 2 x first-order running error bound of a correctly rounded float32 evaluation (exp/log: 4 ulp); elements whose bound "
        "exceeds 1e-3 relative (float32 overflow, log of a non-positive number) are not demanded and are counted",
        "Shared: default inverse_fn (-> None), single `where`; the round trip is demanded when every Shared writes into a slot that is None at that stage",
        "Extend.inv and Denormalize.init on a tree without leaves are observed, not demanded",
        "eager (op-by-op) execution; the same Python code runs under jit but XLA fusion there is not exercised",
    )


def replay(body):
    from vf.c17_real import run_case

    case = body["replay"]["case"]
    r = run_case(case)
    for sig, what in r["viol"]:
        print("still failing:", sig, "-", what)
    if not r["viol"]:
        print("case passes:", {k: v for k, v in r["n"].items() if v})
    return not r["viol"]
