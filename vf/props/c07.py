"""C07 The compiled schedule runs every graph vertex once, in dependency order (DESIGN section 6, C07)."""
from vf.common import Pool, seed
from vf.fcomp import all_sources


def _collect(rep, results, name):
    inst = skipped = 0
    for r in results:
        inst += r["instances"]
        if r["skipped"]:
            skipped += 1
        rep.add(states=r["states"], transitions=r["transitions"], traces=r["instances"])
        seen = set()
        for sig, what, rp in r["violations"]:
            if sig not in seen:
                seen.add(sig)
                rep.violation(f"{sig}@{r['name']}:{rp.get('mode')}:{'prune' if rp.get('prune') else 'noprune'}", what, replay=rp)
    rep.section(name, sources=len(results), instances=inst, sources_skipped=skipped)
    return inst


def run(tier, rep):
    srcs = all_sources(tier, seed())
    tasks = [dict(src=s, s_init=True) for s in srcs]
    with Pool(maxtasks=10) as pool:
        results = list(pool.imap("vf.compiled_tasks", "c07_task", tasks))
    _collect(rep, results, "schedules")
    for r in results[:3]:
        if r["stats"]:
            rep.sample(dict(source=r["name"], variant=r["stats"][0]))
    rep.section("family", sources=[s["name"] for s in srcs][:60], modes=["MCS", "GENERATIONAL", "TOPOLOGICAL"], prune=[True, False], s_init="MCS re-grown from the supergraph of the sibling variant")
    if tier == "quick":
        rep.not_exhaustive("quick tier: rotated slice of the async/gen/raw sources")
    rep.assume("the external supergraph library's result is checked per instance (its search algorithm is not verified)",
               "reference windows / dependency DAG are computed from the raw edges independently of rex.utils.apply_window")


def replay(body):
    from vf.compiled_tasks import c07_task

    rp = body["replay"]
    r = c07_task(dict(src=rp["src"], modes=[rp["mode"]], prunes=[rp["prune"]], s_init=rp.get("s_init", False)))
    print("violations:", [(s, str(w)[:300]) for s, w, _ in r["violations"]][:5])
    return not r["violations"]
