"""C02 Simulated-clock episodes are deterministic across thread schedules and speed (DESIGN section 6, C02).

Differential oracle: every execution (other base policy, every schedule within the deviation bound, real-time factor
0 / 8, run() driver vs reset()/step() driver) must agree with the baseline execution of the same graph and initial
state on the common prefix of what both recorded and of what the supervisor observed.
"""
from vf import harness as H
from vf.common import Pool, seed
from vf.e1common import EPISODE, family_slice, replay_e1, report
from vf.explore import explore_many

JUDGE = ("vf.judges", "judge_c02")
POLS = ["prio", "rr", "rev"]
RUN = [["run"]] * 5 + [["stop"]]
TWICE = [["reset"], ["step"], ["step"], ["step"], ["stop"]] + EPISODE  # two episodes from the same initial graph state


def family_task(arg):
    """Worker: baseline (prio, rtf 0, reset/step) + variants of each member, judged differentially."""
    from vf.asyncx import run_job
    from vf.explore import _account, _empty_stats
    from vf.judges import judge_c02, observables

    stats = _empty_stats()
    for key, spec, k in arg["members"]:
        basejob = dict(spec=spec, user=EPISODE, policy="prio", rtf=0, seed=arg.get("seed", 0))
        bres = run_job(basejob)
        if not bres["finished"]:
            stats["deadlocks"] += 1
            continue
        base = observables(basejob, bres)
        _account(stats, basejob, [], bres, dict(violations=[], outcome="base"))
        variants = [dict(policy="rr", rtf=0, user=EPISODE), dict(policy="rev", rtf=0, user=EPISODE), dict(policy=POLS[k % 3], rtf=8, user=EPISODE),
                    dict(policy=POLS[(k + 1) % 3], rtf=0, user=RUN), dict(policy=POLS[(k + 2) % 3], rtf=0, user=TWICE, same_eps=True)]
        for var in variants:
            job = dict(spec=spec, baseline=base, seed=arg.get("seed", 0), **var)
            res = run_job(job)
            nv = len(stats["violations"])
            _account(stats, job, [], res, judge_c02(job, res))
            for v in stats["violations"][nv:]:
                v["key"] = f"{key}|{var['policy']}.rtf{var['rtf']}.{'run' if var['user'] is RUN else ('twice' if var.get('same_eps') else 'step')}"
    stats["sigs"] = list(stats["sigs"])
    return stats


def run(tier, rep):
    from vf.asyncx import run_job
    from vf.explore import _empty_stats, merge
    from vf.judges import observables

    sd = seed()
    members, fam_size = family_slice(tier, quick_mod=160)
    if tier == "thorough":  # 6 executions per member: every 4th deviation (+ all nominal members), rotated by VERIF_SEED
        members = [x for i, x in enumerate(members) if x[0].endswith("|nominal") or (i + sd) % 4 == 0]
    hs = {"H1": H.H1((1, 6), (1, 1, 3)), "H2.LATEST": H.H2("LATEST", (1, 6), (1, 1, 3)), "H2.BUFFER": H.H2("BUFFER", (1, 6), (1, 1, 3)), "H3": H.H3((1, 6), (1, 1, 3))}
    if tier == "thorough":
        hs.update({"H4": H.H4((1, 6), (1, 1, 3)), "H5": H.H5((1, 3), (1, 1, 3)), "H1.nominal": H.H1()})
    step_user = [["reset"], ["step"], ["step"], ["stop"]]
    ovr_user = [["reset"], ["step_override"], ["step"], ["stop"]]
    run_user = [["run"], ["run"], ["stop"]]
    deep = {}
    for hn, sp in hs.items():
        bj = dict(spec=sp, user=[["reset"]] + [["step"]] * 4 + [["stop"]], policy="prio", rtf=0)
        base = observables(bj, run_job(bj))
        bo = dict(spec=sp, user=[["reset"], ["step_override"]] + [["step"]] * 3 + [["stop"]], policy="prio", rtf=0)
        base_o = observables(bo, run_job(bo))
        for pol in POLS:
            for rtf in (0, 8):
                if rtf == 8 and tier == "quick" and hn != "H1":
                    continue
                deep[(hn, pol, f"rtf{rtf}", "step")] = dict(spec=sp, user=step_user, policy=pol, rtf=rtf, baseline=base)
                deep[(hn, pol, f"rtf{rtf}", "run")] = dict(spec=sp, user=run_user, policy=pol, rtf=rtf, baseline=base)
            deep[(hn, pol, "rtf0", "override")] = dict(spec=sp, user=ovr_user, policy=pol, rtf=0, baseline=base_o)
            if hn in ("H1", "H3") or tier == "thorough":
                deep[(hn, pol, "rtf0", "twice")] = dict(spec=sp, user=[["reset"], ["step"], ["stop"], ["reset"], ["step"], ["step"], ["stop"]], policy=pol, rtf=0, baseline=base, same_eps=True)
    g2 = {}
    if tier == "thorough":
        for pol in ("prio", "rr"):
            g2[("H1", pol, "rtf0", "step", "G2")] = dict(deep[("H1", pol, "rtf0", "step")], gran="G2")
    bound = 1 if tier == "quick" else 2
    with Pool() as pool:
        tasks = [dict(members=[(n, s, i + sd) for i, (n, s) in enumerate(members[j : j + 6], start=j)]) for j in range(0, len(members), 6)]
        dec = H.decimal_family()
        if tier == "quick":
            dec = [x for i, x in enumerate(dec) if (i + sd) % 3 == 0]
        for sdd in ([sd] if tier == "quick" else [sd, sd + 1, sd + 2]):
            tasks += [dict(members=[(n + f"#seed{sdd}", s, i + sd) for i, (n, s) in enumerate(dec[j : j + 6], start=j)], seed=sdd) for j in range(0, len(dec), 6)]
        st = _empty_stats()
        for r in pool.imap("vf.props.c02", "family_task", tasks):
            merge(st, r)
        report(rep, "family_policies_rtf_drivers_d0", st, 0, JUDGE, family=True)
        out = explore_many(pool, deep, 1, JUDGE)
        report(rep, "schedules_d1", out, 1, JUDGE)
        if tier == "thorough":
            d2 = {k: v for k, v in deep.items() if k[0] in ("H1", "H3", "H2.BUFFER") and k[2] == "rtf0" and k[3] in ("step", "run")}
            out = explore_many(pool, d2, 2, JUDGE)
            report(rep, "schedules_d2", out, 2, JUDGE)
        if g2:
            out = explore_many(pool, g2, 1, JUDGE)
            report(rep, "schedules_G2_line_level", out, 1, JUDGE)
    rep.section("family", dyadic_family_size=fam_size, members_run=len(members), variants_per_member=["rr", "rev", "rtf=8", "run() driver", "two episodes from the same initial state"], decimal_family_members=len(dec),
                harnesses=sorted(hs), quick_slice="nominal members + deviations with index = VERIF_SEED mod 160" if tier == "quick" else "full")
    for n, s in members[:2]:
        rep.sample(dict(member=n, spec=s))
    if tier == "quick":
        rep.not_exhaustive("quick tier: rotated slice of the family; d<=1")
    else:
        rep.not_exhaustive("thorough tier: every 4th deviation member of the family (6 executions each), rotated by VERIF_SEED")
    rep.assume("other nodes' step_state inside the GraphState returned by reset/step is a racy snapshot by construction and is not compared",
               "supervisor rows after the first unexecuted one are compared on times only",
               "schedules within the deviation bound of three base policies at granularity G1 (G2 on H1 in the thorough tier)")


def replay(body):
    return replay_e1(body)
