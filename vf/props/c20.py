"""C20 The exported policy computes the same action as the trained actor (DESIGN section 6, C20).

Family: PPO `train` (3 updates) for depth {1,2,3} x width {4,16} x activation {tanh,relu,gelu,softplus} x squash {T,F} x
normalise {T,F} x training seed {0,1} = 192 configurations (thorough: all; quick: the 16 activation x squash x normalise
combinations, each with one (depth, width, seed) triple rotated by VERIF_SEED so that the 16 cover all 12 triples).
Per configuration 4 parameter variants (trained, trained-amplified, two hand-set ones) are exported through
PPOResult.policy and Policy.get_action is compared on the full 11^3 observation lattice (exact zeros ... +-1000), without
rng and with 3 rng keys, with the numpy reference model (vf.c20_ref) and with the flax network `train` used; plus the
(raw observation, applied action) pairs recorded by train's own final deterministic evaluation.
"""
import collections
import itertools

from vf.common import Pool, nproc, seed

DEPTHS, WIDTHS, ACTS, SEEDS = (1, 2, 3), (4, 16), ("tanh", "relu", "gelu", "softplus"), (0, 1)


def family():
    return [dict(depth=d, width=w, act=a, squash=s, norm=n, seed=sd) for d, w, a, s, n, sd in itertools.product(DEPTHS, WIDTHS, ACTS, (True, False), (True, False), SEEDS)]


def quick_slice(vseed):
    dws = list(itertools.product(DEPTHS, WIDTHS, SEEDS))  # 12 triples
    out = []
    for c, (a, s, n) in enumerate(itertools.product(ACTS, (True, False), (True, False))):
        d, w, sd = dws[(c + 3 * vseed) % len(dws)]
        out.append(dict(depth=d, width=w, act=a, squash=s, norm=n, seed=sd))
    return out


GROUPS = {"det-vs-ref": "det", "det-vs-flax": "det", "eager-det-vs-ref": "det", "rng-vs-ref": "rng", "rng-vs-flax": "rng", "eager-rng-vs-ref": "rng",
          "policy-vs-train-eval": "train-eval", "train-eval-vs-ref": "train-eval", "flax-vs-ref(mean)": "actor-vs-ref"}


def _sig(cfg, v):
    """<group>:<activation>:sq<0|1>nm<0|1> names the failing case class; the tail pins the first failing member of it."""
    return f"{GROUPS[v['check']]}:{cfg['act']}:sq{int(cfg['squash'])}nm{int(cfg['norm'])}:d{cfg['depth']}w{cfg['width']}s{cfg['seed']}:{v['variant']}:{v['check']}"


def run(tier, rep):
    fam = family()
    cfgs = fam if tier == "thorough" else quick_slice(seed())
    tot = collections.Counter()
    ratio = collections.defaultdict(float)
    per_variant = collections.defaultdict(collections.Counter)
    n_viol = 0
    with Pool(min(len(cfgs), nproc())) as pool:
        for out in pool.imap("vf.c20_run", "run_config", cfgs):
            cfg = out["cfg"]
            tot["configs"] += 1
            tot["trace_pairs"] += out["trace_pairs"]
            tot["trace_pairs_bitwise_equal"] += out["trace_bitwise"]
            rep.add(states=out["trace_pairs"], transitions=2 * out["trace_pairs"], traces=out["trace_pairs"])
            for vname, r in out["variants"].items():
                rep.add(states=r["cases"], transitions=r["cmps"], traces=r["traces"])
                tot["cases"] += r["cases"]
                for k, x in r["max_ratio"].items():
                    ratio[k] = max(ratio[k], x)
                pv = per_variant[vname]
                g = r["regimes"]
                pv["exports"] += 1
                pv["hidden_units"] += g["hidden_units"]
                pv["hidden_units_seen_with_both_signs"] += g["hidden_units_both_signs"]
                pv["distinct_activation_sign_patterns"] += g["activation_patterns"]
                pv["action_components"] += g["act_components"]
                pv["action_components_unclipped_or_unsaturated"] += g["act_interior_components"]
                if g["obs_dims_all3"] is not None:
                    pv["normalised_obs_dims"] += 3
                    pv["normalised_obs_dims_seen_clipped_low_inside_high"] += g["obs_dims_all3"]
                pv["flax_bitwise_equal_det"] += r["bitwise"]["det-vs-flax"]
                pv["rng_sample_differs_from_mean"] += int(r["rng_differs_from_det"])
            if tot["configs"] <= 3:
                rep.sample(out["sample"])
            seen = collections.Counter()
            for v in out["viol"]:  # one violation per (configuration, check group); the others are counted in `what`
                seen[GROUPS[v["check"]]] += 1
            done = set()
            for v in out["viol"]:
                sig = _sig(cfg, v)
                if GROUPS[v["check"]] in done:
                    continue
                done.add(GROUPS[v["check"]])
                v["n_bad"] = dict(points_failing_this_check=v["n_bad"], failing_check_records_of_this_group_in_this_configuration=seen[GROUPS[v["check"]]])
                n_viol += 1
                rep.violation(sig, dict(cfg=cfg, check=v["check"], variant=v["variant"], obs=v["obs"], key=v["key"], policy_get_action=v["real"], expected=v["expected"], tol=v["tol"],
                                        failing_points_of_this_check=v["n_bad"]),
                              replay=dict(cfg=cfg, variant=v["variant"], check=v["check"], obs=v["obs"], key=v["key"]))
    rep.section("family", size=len(fam), explored=len(cfgs), depths=list(DEPTHS), widths=list(WIDTHS), activations=list(ACTS), squash=[True, False], normalize=[True, False],
                train_seeds=list(SEEDS), variants_per_config=4, lattice_values_per_dim=11, lattice_points=11 ** 3, rng_keys=3,
                slice=("full" if tier == "thorough" else f"16 activation x squash x normalise combinations, (depth,width,seed) rotated by VERIF_SEED={seed()}"))
    rep.section("train_eval_trace", pairs=tot["trace_pairs"], bitwise_equal=tot["trace_pairs_bitwise_equal"])
    rep.section("tolerance", kind="per-point float32 forward error bound x2 (vf.c20_ref.tolerance)", **{"max_observed_fraction_of_tolerance:" + k: round(v, 4) for k, v in ratio.items()})
    for vname, pv in per_variant.items():
        rep.section("variant_" + vname, **dict(pv))
    print(f"[C20] {tot['configs']} configurations, {tot['cases']} lattice cases, {tot['trace_pairs']} train-eval pairs ({tot['trace_pairs_bitwise_equal']} bitwise equal); "
          f"largest |real-ref|/tolerance = {max(ratio.values()) if ratio else 0:.4f}")
    if tier == "quick":
        rep.not_exhaustive(f"quick tier: 16 of {len(fam)} configurations (every activation x squash x normalise combination once; all 12 (depth,width,seed) triples covered)")
    rep.assume(
        "'any observation' is decided on an 11^3 lattice (0, +-1/16 ... +-1000) plus the on-distribution observations of train's own evaluation",
        "training is real (rex.ppo.train, jitted) but tiny: 3 updates; non-trivial weights/log_std/statistics/bounds come from the hand-set variants injected into the runner state",
        "epsilon of a sampled action is jax.random.normal(key, (action_dim,)); numpy float64 arithmetic and flax.linen.Dense/gelu(approximate=True) are the trusted base",
        "comparison tolerance: 2 x propagated float32 rounding bound per point (inner products gamma_{n+1}, 1-Lipschitz activations, 16 ulp for transcendental kernels)",
        "STATE_INDEPENDENT_STD=True only (the state-dependent head is outside 'supported' configurations: train() itself cannot run it batched)",
    )


def replay(body):
    from vf.c20_run import replay_case

    rp = body["replay"]
    print("replaying", rp)
    return replay_case(rp)
