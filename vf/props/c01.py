"""C01 Compiled replay reproduces the recorded asynchronous execution step for step (DESIGN section 6, C01)."""
from vf.common import Pool, seed
from vf.fcomp import async_sources
from vf.props.c07 import _collect


def run(tier, rep):
    sd = seed()
    srcs = async_sources(tier, sd)
    tasks = []
    for i, s in enumerate(srcs):
        if tier == "thorough" or i < 8 or ".L3." in s["name"]:  # (L3 has a sink: pruned away under MCS + prune)
            tasks.append(dict(src=s))  # all 3 modes x prune
        else:
            tasks.append(dict(src=s, modes=(("MCS", "GENERATIONAL", "TOPOLOGICAL")[(i + sd) % 3],), prunes=(bool((i + sd) % 2),)))
    with Pool(maxtasks=6) as pool:
        results = list(pool.imap("vf.compiled_tasks", "c01_task", tasks))
    _collect(rep, results, "replays")
    rep.section("family", sources=[s["name"] for s in srcs], episodes_per_source="1-3 (ragged)", variants="3 supergraph modes x prune on the core sources; one rotated variant on the family slice" if tier == "quick" else "3 modes x prune everywhere")
    for r in results[:2]:
        rep.sample(dict(source=r["name"], compiled_runs=r["instances"], steps_compared=r["states"]))
    if tier == "quick":
        rep.not_exhaustive("quick tier: core harnesses + rotated slice of the dyadic family")
    rep.assume("payloads are integer hashes of everything a step may depend on (bit-exact across separately compiled programs)",
               "the compiled run starts from the threaded run's per-node rng (the two init() split the seed differently); params/state are deterministic",
               "supervisor steps are compared where the threaded run executed/observed them; negative window sequence numbers are identified")


def replay(body):
    from vf.compiled_tasks import c01_task

    rp = body["replay"]
    r = c01_task(dict(src=rp["src"], modes=[rp["mode"]], prunes=[rp["prune"]]))
    print("violations:", [(s, str(w)[:400]) for s, w, _ in r["violations"]][:6])
    return not r["violations"]
