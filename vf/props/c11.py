"""C11 Interpolated delays sample the sender's signal at step time minus delay (DESIGN section 6, C11).

Bounded-exhaustive: direct calls of the real `TrainableDist.apply_delay` over the full product
  interp {linear, linear_real_only} (+ zoh as the comparison partner) x sender rate {8,16,32} Hz x [min,max] {[0,8/64],[1/64,5/64],[0,3/64]} s
  x window {1,2,3} x payload pytree with every (shape {(),(2,),(2,3)} x dtype {float32,int32,uint8}) leaf plus float16/bfloat16 leaves of shape (), (2,)
  x timing patterns (regular, leading dummy messages, jittered by +-T/4, dummies + jitter, duplicated send times, late first message)
  x step times on/off the message lattice (inside and outside the regime a compiled graph produces)
  x ALL regions of the delay d: every lattice point at which some window entry can hit a message, +-1 lattice step around it,
    two interior points per open region, both bounds,
each compared with the plain-numpy reference of vf.c11_ref (all times are multiples of 1/4096 s: exact in float32 and float64).
"""
import collections

from vf import c11_ref as R
from vf.common import Pool, seed

MOD = "vf.c11_run"


def _tasks(tier):
    sd = seed()
    tasks = []
    for rate in R.RATES:
        for mn, mx in R.RANGES:
            if tier == "quick" and rate == 32 and (mn, mx) != R.RANGES[sd % 3]:
                continue  # quick tier: the 32 Hz sender (buffers of 3-7 messages) with one VERIF_SEED-rotated delay range
            for W in R.WINDOWS:
                cfg = dict(rate=rate, min=mn, max=mx, W=W)
                pats, _ = R.patterns(rate, mn, mx, W, tier, sd)
                C = W + R.window_delayed(rate, mn, mx)
                weight = len(pats) * C * (mx - mn) * rate // R.U
                nch = max(1, min(16, weight // 1000)) if tier == "thorough" else 1  # every task pays ~15 s of import + XLA compilation
                for ch in range(nch):
                    tasks.append((weight / nch, dict(cfg=cfg, tier=tier, seed=sd, chunk=ch, nchunks=nch)))
    tasks.sort(key=lambda t: -t[0])
    return [t[1] for t in tasks]


def run(tier, rep):
    tasks = _tasks(tier)
    tot = collections.Counter()
    counts = collections.Counter()
    fam = collections.Counter()
    seen_cfg = set()
    kept = collections.Counter()
    with Pool() as pool:
        for res in pool.imap(MOD, "run_task", tasks):
            tot.update(res["stats"])
            counts.update(res["counts"])
            key = tuple(sorted(res["cfg"].items()))
            if key not in seen_cfg:
                seen_cfg.add(key)
                fam["jitter_vectors_enumerated"] += res["info"]["jitter_vectors_enumerated"]
                fam["jitter_vectors_family"] += res["info"]["jitter_vectors_family"]
            if res["sample"] and res["chunk"] == 0 and res["cfg"]["W"] == 2:
                rep.sample(res["sample"], limit=4)
            for sig, what, rp in res["items"]:
                kept[sig] += 1
                if kept[sig] <= 3:
                    rep.violation(sig, what, replay=rp)
    # violations beyond the kept ones are only counted
    rep.add(states=tot["cases"], transitions=tot["entry_comparisons"] + tot["zoh_entry_comparisons"] + tot["gradient_comparisons"] + tot["continuity_comparisons"], traces=tot["cases"])
    rep.section(
        "family",
        configurations=len(seen_cfg), tasks=len(tasks), interp=R.VARIANTS + ["zoh (partner)"], rates_hz=R.RATES, ranges_s=[[R.sec(a), R.sec(b)] for a, b in R.RANGES],
        windows=R.WINDOWS, payload_leaves=[n for n, _, _ in R.LEAVES], time_lattice_s="1/4096", patterns=tot["patterns"], groups_pattern_x_step_time=tot["groups"], groups_skipped_quick_slice=tot["groups_skipped_quick_slice"],
        jitter_vectors_enumerated=fam["jitter_vectors_enumerated"], jitter_vectors_family=fam["jitter_vectors_family"],
    )
    rep.section(
        "delay_regions",
        regions=tot["regions"], true_breakpoints=tot["breakpoints"], delay_points_x_variants=tot["cases"], points_dropped_inexact_alpha=tot["points_dropped_inexact_alpha"],
    )
    rep.section(
        "clauses",
        entry_value_and_neighbour_comparisons=tot["entry_comparisons"], zoh_coincidences=tot["zoh_coincidences"], zoh_entry_comparisons=tot["zoh_entry_comparisons"],
        continuity_comparisons=tot["continuity_comparisons"], gradient_comparisons=tot["gradient_comparisons"], gradient_elements_compared=tot["gradient_elements_compared"], gradient_at_bound_comparisons=tot["gradient_at_bound_comparisons"],
        gradient_at_bound_with_nonzero_slope=tot["gradient_at_bound_nonzero_slope"], gradient_at_bound_skipped_on_message=tot["gradient_at_bound_skipped_on_message"], gradient_elements_skipped_at_kinks=tot["gradient_skipped_at_kinks"],
        dtype_shape_checks=tot["dtype_shape_checks"], vmap_gate_cases=tot["vmap_gate_cases"],
        irregular_spacing_older_entry_mismatches=tot["irregular_spacing_older_entry_mismatches"],
        entries_undecided_short_window_with_dummies=tot["entries_undecided_short_window_with_dummies"],
    )
    rep.section("violation_counts_by_signature", **{k: int(v) for k, v in counts.items()})
    if tier == "quick":
        rep.not_exhaustive(
            "quick tier: 32 Hz sender with one VERIF_SEED-rotated delay range of the three (8 and 16 Hz with all three); jitter vectors with <= 1 deviation plus a VERIF_SEED-rotated 1/12 slice of the remaining vectors "
            f"({fam['jitter_vectors_enumerated']} of {fam['jitter_vectors_family']}); in the 32 Hz x [0,8/64] configurations (when selected) a VERIF_SEED-rotated third of the "
            f"(jittered pattern, step time) groups ({tot['groups_skipped_quick_slice']} groups skipped); every other dimension is enumerated completely"
        )
    else:
        rep.section("family", jitter_note="all {-1,0,+1}^C deviation vectors for C <= 5 buffers, <= 2 deviations for C in {6,7}")
    rep.assume(
        "continuity and differentiability over the reals are decided at region representatives only: exact conformance with the reference at every lattice point, "
        "+-1 lattice step (1/4096 s) around it, two interior points per region and both bounds, which determines a piecewise-linear function on each region",
        "'one sender period' is read as 1/rate_out (the nominal period); an older entry that instead equals the signal sampled at the realised spacing of the window's "
        "messages is reported under the signature prefix irregular-spacing:older-entry: (only for non-newest entries whose consumed messages are real and not 1/rate apart)",
        "times are multiples of 1/4096 s below 64 s (exact in float32); step times >= 32 s only through the 'late first message' patterns (40 s); payload magnitudes <= 220",
        "delay points whose alpha is not exactly representable in float32 (only in the [0,3/64] range) are dropped and counted",
        "buffers are in arrival order and all dummy messages carry the same payload, ts_sent = ts_recv = 0 (what rex's initial window holds); a real message sent at exactly 0 is not enumerated",
        "integer payloads: any integer between floor and ceil of the signal value is accepted, and both integer neighbours of an integer-valued signal (the statement does not fix the "
        "rounding of the cast; rex truncates a float32 value that can be one ulp off); exact equality is demanded where ts_start - d hits a message (zoh clause)",
        "older window entries that show dummy messages are compared with the variant's own convention only (no sender period exists there) and are exempt from the continuity clause",
        "when fewer than `window` messages have arrived the statement does not say which slots the window shows: the newest entry and the nominal older entries of all-real buffers are still "
        "decided, older entries of buffers with dummies are counted as undecided",
        "duplicated send times with different payloads make the sender signal itself discontinuous: there any value between the two payloads is accepted at the jump and the continuity/zoh clauses are skipped",
        "the gradient is taken with jax.jacrev (reverse mode, what jax.grad uses) on the float32 leaves only, at two interior points per region and at both bounds alpha in {0,1} "
        "(there against the one-sided difference taken inside [min,max]); points where the reference's one-sided slopes differ (query time on a message) are skipped and counted",
        "float16 / bfloat16 leaves (shapes () and (2,)): dtype restoration and values within 2*8*2^-11 resp. 2*8*2^-8 (one rounding of the float32 result by the cast back); not differentiated",
        "jax.vmap of apply_delay equals the per-call jitted function (checked on 24 cases per configuration (quick tier: the window=2 configurations), floats within 2e-4, integer casts within 1)",
    )


def replay(body):
    from vf.c11_run import replay_group

    viol, stats = replay_group(body["replay"])
    want = body.get("signature")
    sigs = dict(viol.count)
    print("replayed group:", body["replay"]["pattern"]["name"], "cfg", body["replay"]["cfg"], "cases", stats["cases"], "violations by signature:", sigs)
    for sig, what, _ in viol.items[:3]:
        print("  ", sig, {k: what[k] for k in ("interp", "d", "entry_back_from_newest", "observed", "expected_lo", "f_d", "f_d_eps") if k in what})
    if want is not None:
        return sigs.get(want, 0) == 0
    return not sigs
