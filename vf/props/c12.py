"""C12 Generated and augmented graphs are well-formed and match the node configuration (DESIGN section 6, C12).

Bounded-exhaustive enumeration of the family F-gen (vf/c12_family.py) on the real rex.artificial.generate_graphs / augment_graphs;
every vertex and edge of every returned graph is judged by the plain-Python oracle of vf/c12_ref.py, and the dyadic deterministic
members are compared for exact equality with the independent reference generator defined there.
"""
import collections
import concurrent.futures
import concurrent.futures.process
import multiprocessing as mp
import os
import shutil
import tempfile
import traceback

from vf import c12_family as F
from vf.common import GUARD, HarnessError, nproc, seed


def _groups(tier):
    vs = seed()
    groups, family = F.groups(tier, vs)
    for g in groups:
        g["key"] = g["seed"] + 100 * vs  # VERIF_SEED also seeds the stochastic members; the oracle does not depend on it
    # longest first (4-node augmentation plans), so that the pool drains evenly
    groups.sort(key=lambda g: -(len(g["rates"]) ** 2 * (30 if g.get("aug") else 1)))
    return groups, family


def _imap(groups):
    """Spread the groups over spawned workers (like vf.common.Pool, but a worker that dies - killed, out of memory - is an
    explicit harness error instead of a hang)."""
    n = nproc()
    if n <= 1:
        from vf import c12_run

        for g in groups:
            yield c12_run.run_group(g)
        return
    env = {k: v for k, v in os.environ.items() if k.startswith(("VERIF_", "JAX_", "XLA_", "PYTHONHASHSEED", GUARD))}
    from vf.c12_run import run_group, worker_init

    ex = concurrent.futures.ProcessPoolExecutor(n, mp_context=mp.get_context("spawn"), initializer=worker_init, initargs=(env,))
    try:
        futs = [ex.submit(run_group, g) for g in groups]
        for f in concurrent.futures.as_completed(futs):
            try:
                yield f.result()
            except concurrent.futures.process.BrokenProcessPool as e:
                raise HarnessError(f"a worker process died (killed / out of memory): {e}")
            except Exception as e:  # noqa
                raise HarnessError("worker failed:\n" + "".join(traceback.format_exception(type(e), e, e.__traceback__))[-4000:])
    finally:
        procs = list((getattr(ex, "_processes", None) or {}).values())
        ex.shutdown(wait=False, cancel_futures=True)
        for p in procs:
            try:
                p.terminate()
            except Exception:  # noqa
                pass


def run(tier, rep):
    groups, family = _groups(tier)
    cache = tempfile.mkdtemp(prefix=f"verif-{os.getpid()}-c12-")
    os.environ["VERIF_C12_JAXCACHE"] = cache
    tot = collections.Counter()
    ncount = collections.Counter()
    vcount = collections.Counter()
    per_kind = collections.Counter()
    shown = collections.Counter()
    try:
        for out in _imap(groups):
            tot["groups"] += 1
            tot["calls"] += out["calls"]
            tot["horizons"] += out["horizons"]
            tot["landed"] += out["landed"]
            tot["aug_cases"] += out["aug_cases"]
            tot["identity_aug"] += out["identity_aug"]
            ncount.update(out["n"])
            vcount.update(out["violation_count"])
            per_kind[out["id"].split(".")[2]] += 1
            for v in out["violations"]:
                shown[v["signature"]] += 1
                if shown[v["signature"]] <= 3:
                    rep.violation(v["signature"], v["what"], replay=v["replay"])
            if out["sample"] is not None and (tot["groups"] % max(1, len(groups) // 5) == 1):
                rep.sample(out["sample"])
    finally:
        os.environ.pop("VERIF_C12_JAXCACHE", None)
        shutil.rmtree(cache, ignore_errors=True)
    rep.add(states=ncount["vertices"] + ncount["edges"], transitions=ncount["comparisons"], traces=tot["calls"])
    rep.section(
        "family_F_gen",
        groups_in_family=family, groups_run=tot["groups"], base_configurations=len(F.base_configs()),
        generate_and_augment_calls=tot["calls"], horizons_run=tot["horizons"], horizons_landing_exactly_on_a_vertex_end=tot["landed"],
        augmentation_cases=tot["aug_cases"], augmentation_cases_with_nothing_to_add=tot["identity_aug"],
        topologies=list(F.TOPOLOGIES), dyadic_kinds=F.DYADIC_KINDS, generic_kinds=F.GENERIC_KINDS, groups_per_kind=dict(per_kind),
        slice=("full family" if tier == "thorough" else f"18 core groups + every {F.QUICK_STRIDE}th group of the family rotated by VERIF_SEED, one landing target, reduced augmentation plans"),
    )
    rep.section(
        "oracle",
        vertices_checked=ncount["vertices"], messages_checked=ncount["edges"], comparisons=ncount["comparisons"],
        elements_compared_with_reference_generator=ncount["ref_compared"], exact_ties_arrival_equals_start=ncount["ties"],
        overrun_steps=ncount["overrun_steps"], messages_never_received=ncount["unreceived"], masked_slots=ncount["masked_slots"],
        messages_arriving_before_an_earlier_one=ncount["nonmonotone_recv"], of_which_misfiled=ncount["overtaken"],
        augmentations_whose_derived_horizon_exceeds_last_valid_end=ncount["aug_horizon_beyond_last_valid_end"],
        violation_counts=dict(vcount),
    )
    if tier == "quick":
        rep.not_exhaustive(f"quick tier: core groups + VERIF_SEED-rotated 1/{F.QUICK_STRIDE} slice of the family; the thorough tier enumerates all groups")
    rep.assume(
        "family F-gen as listed in vf/c12_family.py: 2-4 nodes, rates {4,8,16} and {5,7,10}, the listed delay kinds, horizons < 1 s, 1-3 episodes",
        "exact (zero tolerance) on the dyadic lattice; 1e-6 s on delay values / spacing of the generic members, decisions re-evaluated on the recorded floats",
        "Normal / mixture samples are only checked to be non-negative and within 8 sigma of a component mean",
        "augmentation horizon = maximum ts_end over all slots of the present graph (docstring of _generate_graphs)",
        "connections are non-blocking, LATEST, advance=False, FREQUENCY scheduling (the rest raises NotImplementedError in generate_graphs)",
    )


def replay(body):
    from vf import c12_run

    r = body["replay"]
    found = c12_run.run_case((r["group"], r["case"]))
    for sig, d in found[:6]:
        print("replay:", sig, d)
    print(f"replayed case {r['case']} of group {r['group']['id']}: {len(found)} finding(s)")
    return not found
