"""C13 Recording is faithful and never changes the execution (DESIGN section 6, C13)."""
from vf import harness as H
from vf.common import Pool, seed
from vf.compiled_tasks import _combos
from vf.fcomp import all_sources
from vf.props.c07 import _collect

EP = [["reset"], ["step"], ["step_override"], ["step"], ["step"], ["stop"]]
TWO = [["reset"], ["step"], ["step"], ["stop"], ["run"], ["run"], ["run"], ["stop"], ["reset"], ["step"], ["stop"], ["reset_carry"], ["step"], ["step"], ["stop"]]


def run(tier, rep):
    sd = seed()
    combos = _combos("all")
    maxrecs = [None, 1, 2, 5]
    th = []
    hs = [("H1", H.H1((1, 6), (1, 1, 3))), ("H4", H.H4((1, 6))), ("L1", H.L1(16, 8, 1, 2, 1, 2))]
    if tier == "thorough":
        hs += [("H3", H.H3((1, 6))), ("H5", H.H5()), ("H2.B", H.H2("BUFFER", (1, 6)))]
    for hi, (hn, sp) in enumerate(hs):
        cases = [(c, m) for ci, c in enumerate(combos) for mi, m in enumerate(maxrecs) if tier == "thorough" or m is None or (ci + mi + sd) % 4 == 0]
        for j in range(0, len(cases), 8):
            th.append(dict(name=f"threaded.{hn}", spec=sp, user=TWO if hi % 2 else EP, policy=("prio", "rr", "rev")[(hi + j) % 3], cases=cases[j : j + 8]))
    srcs = all_sources("quick", sd)
    pick = [s for s in srcs if s["name"] in ("async.H4.2eps", "gen.3n.fan.cyc", "raw.abc.w2-1", "async.H1.2eps", "raw.fan.burst")]
    comp = []
    for i, s in enumerate(pick):
        full = (i == (sd % len(pick))) or tier == "thorough"
        cs = combos if full else [combos[31], combos[0], combos[(7 * i + sd) % 32], combos[(11 * i + 5 + sd) % 32]]
        mode = ("MCS", "GENERATIONAL", "TOPOLOGICAL")[(i + sd) % 3]
        for j in range(0, len(cs), 4):
            comp.append(dict(src=s, mode=mode, prune=bool(i % 2), combos=cs[j : j + 4], eps=[0, 1] if (full and j == 0) else [i % 2]))
    with Pool(maxtasks=8) as pool:
        r1 = list(pool.imap("vf.compiled_tasks", "c13_threaded_task", th))
        r2 = list(pool.imap("vf.compiled_tasks", "c13_compiled_task", comp))
    _collect(rep, r1, "threaded")
    _collect(rep, r2, "compiled")
    rep.section("family", record_setting_combinations=32, max_records=[str(m) for m in maxrecs], threaded_harnesses=[h for h, _ in hs], compiled_sources=[s["name"] for s in pick],
                compiled_runs_per_case="0..max_steps+2 run() calls compared leaf by leaf with the recording-off run")
    rep.sample(dict(threaded_case=dict(harness=hs[0][0], combo=combos[21], max_records=2)))
    rep.sample(dict(compiled_case=dict(source=pick[0]["name"], combo=combos[10])))
    if tier == "quick":
        rep.not_exhaustive("quick tier: all 32 combinations with max_records=inf, a rotated quarter with finite max_records; all 32 on one compiled source")
    rep.assume("the probe's host-side trace (plain Python / ordered io_callback) is the independent witness of what a step used and produced",
               "threaded runs use the same base schedule for the recording-on and recording-off runs (recording adds no scheduling point)")


def replay(body):
    from vf.compiled_tasks import c13_compiled_task, c13_threaded_task

    rp = body["replay"]
    if rp["kind"] == "threaded":
        j = rp["job"]
        r = c13_threaded_task(dict(name="replay", spec=j["spec"], user=j["user"], policy=j["policy"], cases=[(j["record"], j.get("max_records"))]))
    else:
        r = c13_compiled_task(rp)
    print("violations:", [(s, str(w)[:400]) for s, w, _ in r["violations"]][:6])
    return not r["violations"]
