"""C04 Step start times obey the documented rate, phase, delay and scheduling law (DESIGN section 6, C04)."""
import itertools

from vf import harness as H
from vf.common import Pool, seed
from vf.e1common import EPISODE, family_slice, replay_e1, report
from vf.explore import run_family

JUDGE = ("vf.judges", "judge_c04")
POLS = ["prio", "rr", "rev"]


def _pairs(tier):
    """double deviations (two overruns / overrun + late blocking message) on timing-relevant bases"""
    out = []
    bases = [b for b in H.fasync_bases() if b[0].startswith(("chain.BL", "chain.NL.w1", "cyc2.BL", "chain3.BL-BL"))]
    if tier == "quick":
        bases = bases[seed() % 7 :: 7]
    else:
        bases = bases[seed() % 2 :: 2]  # every second timing base (about 50 000 episodes)
    for bn, b in bases:
        devs = [d for d in H.deviations(b, ticks=(0, 1, 2)) if d[3] > 0]
        if tier == "quick":
            devs = devs[::3]
        for d1, d2 in itertools.combinations(devs, 2):
            if d1[1] == d2[1] and d1[2] == d2[2]:
                continue
            out.append((bn + "|" + d1[0] + "," + d2[0], H.apply_deviation(H.apply_deviation(b, d1), d2)))
    return out


def run(tier, rep):
    sd = seed()
    members, fam_size = family_slice(tier, quick_mod=24)
    jobs = [(n, dict(spec=s, user=EPISODE, policy=POLS[(i + sd) % 3])) for i, (n, s) in enumerate(members)]
    pairs = _pairs(tier)
    pjobs = [(n, dict(spec=s, user=EPISODE, policy=POLS[(i + sd) % 3])) for i, (n, s) in enumerate(pairs)]
    # expected delays changed through the public set_delay between two episodes of the same graph object: the schedule of
    # the second episode must follow the new phases
    sjobs = []
    two = lambda op: [["reset"]] + [["step"]] * 3 + [["stop"], op, ["reset"]] + [["step"]] * 4 + [["stop"]]  # noqa
    for bi, (bn, b) in enumerate([x for x in H.fasync_bases() if x[0].startswith(("chain.BL.w1", "chain.NL.w1", "chainX.BL.16-16", "cyc2.NL-NLs.16-16"))]):
        if tier == "quick" and (bi + sd) % 3 != 0:
            continue
        for op in (["set_delay", "node", "a", 3], ["set_delay", "edge", 0, 6], ["set_delay", "node", "a", 0]):
            sjobs.append((f"{bn}|{op[1]}{op[2]}={op[3]}", dict(spec=b, user=two(op), policy=POLS[(bi + sd) % 3])))
    with Pool() as pool:
        st = run_family(pool, sjobs, JUDGE)
        report(rep, "set_delay_between_episodes_d0", st, 0, JUDGE, family=True)
        st = run_family(pool, jobs, JUDGE)
        report(rep, "family_single_deviations_d0", st, 0, JUDGE, family=True)
        st = run_family(pool, pjobs, JUDGE)
        report(rep, "double_deviations_d0", st, 0, JUDGE, family=True)
    rep.section("family", dyadic_family_size=fam_size, members_run=len(jobs), double_deviation_members=len(pjobs),
                quick_slice="nominal members + deviations with index = VERIF_SEED mod 24; every 7th timing base for pairs" if tier == "quick" else "full")
    for n, j in jobs[:2] + pjobs[:1]:
        rep.sample(dict(member=n, spec=j["spec"], policy=j["policy"]))
    if tier == "quick":
        rep.not_exhaustive("quick tier: rotated slice of the family")
    rep.assume("the law is evaluated on the recorded values with the scripted delays as the sampled delays; dyadic lattice => zero tolerance",
               "FREQUENCY spacing >= 1/rate is demanded for nodes without blocking inputs (with blocking inputs the recurrence does not imply it)")


def replay(body):
    return replay_e1(body)
