"""C16 Node phases and node infos stay consistent with the configured delays (DESIGN section 6, C16).

Bounded-exhaustive, breadth-first over operation histories on three real rex nodes (a 16 Hz, b 8 Hz, c 4 Hz), every
reachable configuration deduplicated by the canonical form of the reference configuration (vf/c16_ref.py), and every
operation of the alphabet applied to every distinct configuration on the real code:

  wide : full alphabet, depth 2. connect(x, y, blocking, skip, dist, delay) for all 9 ordered pairs (self connections
         included) x {F,T}^2 x dist in {-, Deterministic(1/64), Normal(3/64, 1/2048), StaticDist(Deterministic(3/64))}
         x delay in {-, 0, 1/64, 3/64}; node.set_delay and conn.set_delay with the same 16 (dist, delay) settings.
  mid  : narrow alphabet (non-blocking; 3 settings per operation), self connections included, depth 3.
  deep : narrow alphabet without self connections, depth 4 from the initial configuration I1 (depth 3 from I0): 3-cycles,
         longest paths over a->b->c plus a->c, each followed by set_delay.
  attr : product of everything an info carries (advance, scheduling, color, order, blocking, skip, window, jitter,
         input name) for the info round trip.
  sim  : rex.artificial.generate_graphs after histories that end in a set_delay.

After every operation: attributes, infos, phases of all nodes/connections and the from_info/connect_from_info rebuild
are compared with the reference; after the `sim` histories the generated vertex durations, edge delays and first start
times are compared with the configured distributions and phases.
"""
from vf import c16_check as C
from vf import c16_ref as R
from vf.common import Pool, seed

MOD = "vf.props.c16"


def dispatch(task):
    """Pool entry point: one task of any family."""
    fn, arg = task
    if fn == "expand":
        res = C.expand_task(arg)
    elif fn == "attr":
        res = C.attr_task(arg["cases"])
    elif fn == "sim":
        res = C.sim_task(arg["cases"])
    else:
        raise ValueError(fn)
    res["tag"] = arg["tag"]
    return res


# ------------------------------------------------------------------------------------------------------------
# enumeration (reference side only)
# ------------------------------------------------------------------------------------------------------------
def bfs_levels(initkey, alpha, depth):
    """levels[d] = one shortest history per distinct configuration first reached after d operations, d < depth."""
    init = C.INITS[initkey]
    seen = {R.Ref(init).canon()}
    levels = [[()]]
    for _ in range(depth - 1):
        nxt = []
        for h in levels[-1]:
            ref = C.build_ref(init, h)
            for op in C.ops(ref, alpha):
                r2 = ref.copy()
                r2.apply(op)
                c = r2.canon()
                if c not in seen:
                    seen.add(c)
                    nxt.append(h + (tuple(op),))
        levels.append(nxt)
    return levels, {C.digest(c) for c in seen}


def _watchdog(pool):
    """multiprocessing.Pool silently replaces a worker that died (e.g. killed for lack of memory) and never delivers its
    task, which would hang the sweep. Turn that into a harness error (exit 2): never a hang, never a disguised pass."""
    import os
    import sys
    import threading
    import time

    stop = threading.Event()
    if pool.pool is None:
        return stop
    pids = {p.pid for p in pool.pool._pool}

    def loop():
        while not stop.wait(5.0):
            try:
                now = {p.pid for p in pool.pool._pool}
            except Exception:  # noqa
                return
            if now != pids and not stop.is_set():
                print("HARNESS-ERROR property=C16: a pool worker died (out of memory?); its task is lost, results would be incomplete")
                sys.stdout.flush()
                time.sleep(0.2)
                os._exit(2)

    threading.Thread(target=loop, daemon=True).start()
    return stop


def _rot(items, k, sd):
    return [x for i, x in enumerate(items) if (i + sd) % k == 0]


def _chunks(items, n):
    return [items[i:i + n] for i in range(0, len(items), n)]


# name -> (alphabet, {init: depth}, {init: depth completed in the quick tier}, {init: quick tier takes every k-th configuration of the next level})
FAMILIES = {
    "wide": ("full", dict(I0=2, I1=2), dict(I0=1, I1=1), dict(I0=48, I1=48)),
    "mid": ("narrow", dict(I0=3, I1=3), dict(I0=2, I1=2), dict(I0=32, I1=32)),
    "deep": ("narrow6", dict(I0=3, I1=4), dict(I0=2, I1=3), dict(I0=16, I1=96)),
}

DESIGNED = {
    "chain": [["connect", "b", "a", False, False, "D1", None], ["connect", "c", "b", False, False, None, 3 / 64]],
    "shortcut": [["connect", "b", "a", False, False, None, None], ["connect", "c", "b", False, False, None, 1 / 64], ["connect", "c", "a", False, False, "D1", None]],
    "cycle_skip": [["connect", "b", "a", False, False, None, 1 / 64], ["connect", "c", "b", False, False, "D1", None], ["connect", "a", "c", False, True, None, 3 / 64]],
    "self_skip": [["connect", "a", "a", False, True, None, None], ["connect", "b", "a", False, False, "N3", None]],
}
SIM_SET = [("D1", None), ("D3", 3 / 64), ("N3", 1 / 64), (None, 3 / 64)]

# histories whose loop reports are checked at Python's default recursion limit (as a user would see them)
LIMIT_HISTORIES = [
    [["connect", "a", "a", False, False, None, None]],
    [["connect", "a", "b", True, False, None, None], ["connect", "b", "a", True, False, None, None]],
    [["connect", "a", "b", False, False, None, None], ["connect", "b", "a", False, False, "D1", None], ["connect", "c", "a", False, True, None, None]],
    [["connect", "a", "b", False, False, None, None], ["connect", "b", "a", False, False, "D1", None], ["connect", "c", "a", False, False, None, None]],
    [["connect", "b", "a", False, False, None, None], ["connect", "c", "b", False, False, None, None], ["connect", "a", "c", False, False, None, 3 / 64]],
    [["connect", "b", "a", False, False, None, None], ["connect", "c", "b", False, False, None, None], ["connect", "a", "c", False, False, None, 3 / 64],
     ["connect", "a", "b", False, False, None, None]],
    [["connect", "b", "a", False, False, None, None], ["connect", "c", "b", False, False, None, None], ["connect", "a", "c", False, True, None, 3 / 64],
     ["cset", "a", "c", "D1", 1 / 64]],
]


def sim_cases(tier, sd):
    designed, derived = [], []
    for tname, topo in DESIGNED.items():
        ref = C.build_ref(C.INITS["I1"], topo)
        targets = [("nset", n) for n in C.NAMES] + [("cset", x, k) for x in C.NAMES for k in ref.inputs[x]]
        for t in targets:
            for d, l in SIM_SET:
                designed.append(dict(init="I1", history=topo + [list(t) + [d, l]], ts_max=0.5, seed=sd, fam="designed:" + tname))
    for initkey in ("I0", "I1"):
        levels, _ = bfs_levels(initkey, "narrow6", 2)
        for lv in levels:
            for h in lv:
                ref = C.build_ref(C.INITS[initkey], h)
                for op in C.ops(ref, "narrow6"):
                    if op[0] == "connect":
                        continue
                    r2 = ref.copy()
                    r2.apply(op)
                    if any(p == R.LOOP for p in r2.phases().values()):
                        continue
                    derived.append(dict(init=initkey, history=[list(o) for o in h] + [op], ts_max=0.5, seed=sd, fam="derived"))
    total = len(designed) + len(derived)
    if tier == "quick":
        designed = _rot(designed, max(1, len(designed) // 16), sd)
        derived = _rot(derived, max(1, len(derived) // 16), sd)
    return designed + derived, total


def run(tier, rep):
    sd = seed()
    quick = tier == "quick"
    tasks = []
    fam_info = {}

    # simulation first: the longest tasks
    sims, sims_total = sim_cases(tier, sd)
    for ch in _chunks(sims, 1 if quick else 2):
        tasks.append(("sim", dict(tag="sim", cases=ch)))

    # history families
    for fam, (alpha, depths, qdepths, qks) in FAMILIES.items():
        for initkey in ("I0", "I1"):
            depth, qdepth, qk = depths[initkey], qdepths[initkey], qks[initkey]
            levels, seen = bfs_levels(initkey, alpha, depth)
            expand, sliced = [], None
            for d, lv in enumerate(levels):
                if not quick or d < qdepth:
                    expand.append((d, lv))
                elif d == qdepth:  # next level: a VERIF_SEED-rotated slice
                    sl = _rot(lv, qk, sd)
                    expand.append((d, sl))
                    sliced = (len(sl), len(lv))
            tag = f"{fam}:{initkey}"
            fam_info[tag] = dict(alphabet=alpha, depth=depth, level_sizes=[len(lv) for lv in levels], seen=seen,
                                 depth_completed=(depth if not quick else qdepth), slice_of_next_level=sliced)
            for d, lv in expand:
                # the initial configuration is expanded at Python's default recursion limit, the rest with the shortened one
                for ch in _chunks(lv, 4 if alpha == "full" else 20):
                    tasks.append(("expand", dict(tag=tag, init=initkey, alpha=alpha, histories=ch, extra_frames=0 if d == 0 else 240)))

    # attribute product
    acases = C.attr_cases()
    for ch in _chunks(acases, 64):
        tasks.append(("attr", dict(tag="attr", cases=ch)))

    # loop reports at the default recursion limit (cheap, in process)
    findings = C.Findings()
    lim = dict(cases=0)
    for initkey in ("I0", "I1"):
        for h in LIMIT_HISTORIES:
            lim["cases"] += 1
            for kind, d in C.check_history(C.INITS[initkey], h, extra_frames=0):
                sig = ("roundtrip:" if kind == "roundtrip" else f"{h[-1][0]}:") + R.path_class(d[0], C.NAMESET)  # same classes as the expanded families
                findings.add(sig, C._what(kind, d, h), dict(kind="hist", init=initkey, history=h, extra_frames=0), len(h))
    rep.add(states=lim["cases"], transitions=sum(len(h) for h in LIMIT_HISTORIES) * 2, traces=2 * lim["cases"])
    rep.section("default_recursion_limit", histories=lim["cases"], note="2-cycles, 3-cycles, self connection, loop with a skipped/unskipped downstream node")

    agg = {}
    with Pool() as pool:
        stop = _watchdog(pool)
        for res in pool.imap(MOD, "dispatch", tasks):
            tag = res["tag"]
            a = agg.setdefault(tag, dict(cnt={}, succ=set(), by_kind={}))
            for k, v in res["cnt"].items():
                a["cnt"][k] = a["cnt"].get(k, 0) + v
            for k, v in res.get("by_kind", {}).items():
                a["by_kind"][k] = a["by_kind"].get(k, 0) + v
            a["succ"] |= res.get("succ", set())
            findings.merge(res["findings"])
        stop.set()

    # coverage ------------------------------------------------------------------------------------------
    for tag, info in fam_info.items():
        a = agg.get(tag, dict(cnt={}, succ=set(), by_kind={}))
        cnt = a["cnt"]
        distinct = len(info["seen"] | a["succ"])
        rep.add(states=distinct, transitions=cnt.get("transitions", 0), traces=cnt.get("traces", 0))
        rep.section(
            "family_" + tag, alphabet=info["alphabet"], depth=info["depth"], depth_completed=info["depth_completed"],
            slice_of_next_level=info["slice_of_next_level"], distinct_configurations_per_level=info["level_sizes"],
            distinct_configurations_reached=distinct, configurations_expanded=cnt.get("bases", 0), operations_applied=cnt.get("transitions", 0),
            operations_by_kind=a["by_kind"], operations_without_effect=cnt.get("noop", 0), configurations_with_algebraic_loop=cnt.get("loop_states", 0),
            round_trips_compared=cnt.get("round_trips", 0), round_trips_impossible_loop=cnt.get("rt_loop", 0),
            expanded_configurations_diverged=cnt.get("bases_diverged", 0),
        )
        if cnt.get("bases_diverged", 0):
            rep.not_exhaustive(f"{tag}: {cnt['bases_diverged']} configurations not expanded because the real configuration already differed from the reference")
    a = agg.get("attr", dict(cnt={}))
    rep.add(states=a["cnt"].get("cases", 0), transitions=2 * a["cnt"].get("cases", 0), traces=a["cnt"].get("traces", 0))
    rep.section("family_attr", cases=a["cnt"].get("cases", 0), product="advance x scheduling x color x order x blocking x skip x window{1,3} x jitter x input name{default, shadow} x (dist,delay){default, (S3,1/64)}")
    a = agg.get("sim", dict(cnt={}))
    rep.add(states=a["cnt"].get("cases", 0), transitions=a["cnt"].get("cases", 0), traces=a["cnt"].get("traces", 0))
    rep.section("family_sim", cases=a["cnt"].get("cases", 0), family_size=sims_total, delays_compared=a["cnt"].get("samples", 0),
                what="generate_graphs(ts_max=0.5) after histories ending in node/conn set_delay: first start = phase, every vertex duration and edge delay follows the configured distribution")
    if quick:
        rep.not_exhaustive("quick tier: wide depth 1, mid depth 2, deep depth 2 (I0) / 3 (I1) completed; the next level of each family and the simulation family are VERIF_SEED-rotated slices")
    rep.sample(dict(family="deep", init="I1", history=[["connect", "b", "a", False, False, "D1", None], ["connect", "c", "b", False, False, None, 0.046875],
                                                        ["connect", "c", "a", False, True, None, None], ["nset", "b", "N3", 0.015625]]))
    rep.sample(dict(family="wide", op=["connect", "a", "a", True, False, "S3", 0.0], expected="algebraic loop on a"))
    rep.sample(dict(family="sim", case=sims[0] if sims else None))
    rep.sample(dict(inits=C.INITS))
    rep.assume(
        "three nodes (rates 16/8/4), delays on the lattice {0,1/64,3/64}, distributions {Normal(0,0) default, Deterministic(1/64), Deterministic(3/64), Normal(1/64,0), Normal(3/64,1/2048), StaticDist(Deterministic(3/64), own rng)}",
        "configurations are deduplicated by the canonical form of the reference configuration; the real objects of an expanded configuration are rebuilt from scratch from its shortest history and each operation is applied to a deepcopy that shares only the immutable distribution objects (checked: the original is unchanged afterwards)",
        "the Python recursion limit is lowered to current depth + 240 frames while rex evaluates phases, except for the expansion of the initial configurations and a list of loop histories which run at the default limit",
        "simulation clause decided on generate_graphs only (non-blocking LATEST connections, FREQUENCY scheduling); stochastic delays are checked against an 8-sigma band, deterministic ones exactly (1e-6)",
        "tolerance 1e-6 on delays/phases: only the 0.99 quantile of Normal(3/64,1/2048) is not a dyadic rational (float32 ndtri vs float64)",
    )

    # violations ----------------------------------------------------------------------------------------
    for sig in sorted(findings.by_sig):
        e = findings.by_sig[sig]
        for size, what, rp in e["examples"][:1]:
            what = dict(what)
            what["cases_with_this_signature"] = e["count"]
            rep.violation(sig, what, replay=rp)


def replay(body):
    r = body["replay"]
    init = C.INITS[r["init"]] if isinstance(r["init"], str) else r["init"]
    if r["kind"] == "hist":
        found = C.check_history(init, r["history"], extra_frames=r.get("extra_frames", 240))
        for kind, d in found:
            print(f"replay: {kind}: field {'/'.join(map(str, d[0]))}: expected {d[1]!r}, observed {d[2]!r}")
    elif r["kind"] == "sim":
        found, _ = C.check_sim(init, r["history"], r["ts_max"], r["seed"])
        for sig, detail in found:
            print(f"replay: {sig}: {detail}")
    else:
        raise ValueError(r["kind"])
    print("replay: history", r["history"], "->", "passes" if not found else "still fails")
    return not found
