"""One controlled execution of a threaded-runtime harness (E1) and its observation.

A *job* = dict(spec=<graph spec>, clock="SIM"|"WALL", rtf=0|8, user=[[op,...],...], policy="prio"|"rr"|"rev",
gran="G1"|"G2", seed=int, record=dict(...)|None, max_records=None, prefix=[...]).
User ops: ["reset"], ["step"], ["step_override"], ["run"], ["stop"].
"""
import time as _time

import numpy as onp

from vf import sched as vs
from vf.common import HarnessError
from vf.probes import U, build_nodes, classes, node_ids, override_output

_RA = None


def _ra():
    global _RA
    if _RA is None:
        from vf.common import import_rex

        import_rex()
        _RA = vs.patch_rex_async()
    return _RA


def priorities(spec):
    """P-user (demand driven): user > supervisor > its input connections > everything else (round-robin among them)."""
    prio = {"user": 0}
    sup = spec["supervisor"]
    for n in spec["nodes"]:
        prio[n] = 1 if n == sup else 9
    for e in spec["edges"]:
        prio[f"{e['n']}/{e['o']}"] = 2 if e["n"] == sup else 9
    return prio


def _line_targets(ra):
    return {
        ra.AsyncGraph.stop.__code__,
        ra.AsyncGraph.start.__code__,
        ra._AsyncNodeWrapper._stop.__code__,
        ra._AsyncNodeWrapper._submit.__code__,
        ra._AsyncConnectionWrapper._submit.__code__,
        ra._Synchronizer._async_step.__code__,
        ra.AsyncGraph.run_supervisor.__code__,
        ra.AsyncGraph.run_until_supervisor.__code__,
    }


def _f(x):
    return float(x)


def _steps_summary(steps_list_or_struct, n_fields=None):
    s = steps_list_or_struct
    out = dict(
        eps=onp.asarray(s.eps).tolist(),
        seq=onp.asarray(s.seq).tolist(),
        ts_start=[_f(x) for x in onp.asarray(s.ts_start, dtype=onp.float64)],
        ts_end=[_f(x) for x in onp.asarray(s.ts_end, dtype=onp.float64)],
        delay=[_f(x) for x in onp.asarray(s.delay, dtype=onp.float64)],
        ts_scheduled=[_f(x) for x in onp.asarray(s.ts_scheduled, dtype=onp.float64)],
        ts_max=[_f(x) for x in onp.asarray(s.ts_max, dtype=onp.float64)],
    )
    if s.rng is not None:
        out["rng"] = onp.asarray(s.rng).astype(onp.uint32).tolist()
    if s.state is not None:
        out["state_h"] = onp.asarray(s.state.h).reshape(len(out["seq"]), -1)[:, 0].tolist()
        out["state_n"] = onp.asarray(s.state.n).reshape(len(out["seq"]), -1)[:, 0].tolist()
    if s.output is not None:
        oh = onp.asarray(s.output.h)  # the supervisor's last (skipped) step records no output: length K-1
        out["out_h"] = oh.reshape(oh.shape[0], -1)[:, 0].tolist() if oh.size else []
        ot = onp.asarray(s.output.tag)
        out["out_tag"] = ot.reshape(ot.shape[0], -1).tolist() if ot.size else []
    if s.inputs is not None:
        ins = {}
        for name, i in s.inputs.items():
            K = len(out["seq"])
            ins[name] = dict(
                seq=onp.asarray(i.seq).reshape(K, -1).tolist(),
                ts_sent=onp.asarray(i.ts_sent, dtype=onp.float64).reshape(K, -1).tolist(),
                ts_recv=onp.asarray(i.ts_recv, dtype=onp.float64).reshape(K, -1).tolist(),
                data_h=onp.asarray(i.data.h).reshape(K, -1).tolist(),
                data_tag=onp.asarray(i.data.tag).reshape(K, -1, 3).tolist(),
            )
        out["inputs"] = ins
    return out


def _msgs_summary(m):
    return dict(
        seq_out=onp.asarray(m.seq_out).tolist(),
        seq_in=onp.asarray(m.seq_in).tolist(),
        ts_sent=[_f(x) for x in onp.asarray(m.ts_sent, dtype=onp.float64)],
        ts_recv=[_f(x) for x in onp.asarray(m.ts_recv, dtype=onp.float64)],
        delay=[_f(x) for x in onp.asarray(m.delay, dtype=onp.float64)],
    )


_EMPTY_MSGS = dict(seq_out=[], seq_in=[], ts_sent=[], ts_recv=[], delay=[])
_EMPTY_STEPS = dict(eps=[], seq=[], ts_start=[], ts_end=[], delay=[], ts_scheduled=[], ts_max=[])


def summarize_record(g):
    """Canonical, JSON-able view of graph.get_record() (public API); falls back to the per-wrapper lists when the
    public call raises TypeError on an empty connection/node (DESIGN section 7: outside the listed properties)."""
    import jax

    out, fallback, rec = {}, [], None
    try:
        rec = g.get_record()
    except TypeError:
        rec = None
    for name, w in g._async_nodes.items():
        if rec is not None:
            nr = rec.nodes[name]
            out[name] = dict(steps=_steps_summary(nr.steps), inputs={o: _msgs_summary(ir.messages) for o, ir in nr.inputs.items()},
                             phase=float(nr.info.phase), in_phase={o: float(ir.info.phase) for o, ir in nr.inputs.items()})
            continue
        fallback.append(name)
        steps = w._record_steps or []
        if steps:
            to_array = lambda *x: onp.array(x[:-1]) if (len(x) > 0 and x[-1] is None) else onp.array(x)  # noqa (mirrors rex)
            st = _steps_summary(jax.tree_util.tree_map(to_array, *steps))
        else:
            st = dict(_EMPTY_STEPS)
        last = st["seq"][-1] if st["seq"] else -1
        ins = {}
        for _, c in w.inputs.items():
            ms = [m for m in (c._record_messages or []) if m.seq_in <= last]
            ins[c.connection.output_node.name] = _msgs_summary(jax.tree_util.tree_map(lambda *x: onp.array(x), *ms)) if ms else dict(_EMPTY_MSGS)
        out[name] = dict(steps=st, inputs=ins, phase=float(w.node.phase), in_phase={c.connection.output_node.name: float(c.connection.phase) for c in w.inputs.values()})
    return out, fallback, rec


def _obs(ss):
    """What the supervisor observes: its StepState as returned by reset/step."""
    ins = {}
    for name, i in ss.inputs.items():
        ins[name] = dict(
            seq=onp.asarray(i.seq).tolist(),
            ts_sent=onp.asarray(i.ts_sent, dtype=onp.float64).tolist(),
            ts_recv=onp.asarray(i.ts_recv, dtype=onp.float64).tolist(),
            data_h=onp.asarray(i.data.h).reshape(-1).tolist(),
        )
    return dict(
        seq=int(onp.asarray(ss.seq)),
        ts=float(onp.asarray(ss.ts, dtype=onp.float64)),
        rng=onp.asarray(ss.rng).astype(onp.uint32).tolist(),
        state_h=int(onp.asarray(ss.state.h).reshape(-1)[0]),
        inputs=ins,
    )


def run_job(job, keep_graph=False):
    """Execute one schedule. Returns a JSON-able result dict."""
    ra = _ra()
    import jax
    import rex.constants as const

    spec = job["spec"]
    clock = job.get("clock", "SIM")
    gran = job.get("gran", "G1")
    policy = job.get("policy", "prio")
    prio = priorities(spec)
    if policy == "wf":  # workers first: the user thread only runs when no worker can (the mirror image of P-user)
        prio["user"] = 99
        policy = "prio"
    S = vs.new_scheduler(policy=policy, prio=prio, line_targets=_line_targets(ra) if gran == "G2" else None, max_steps=job.get("max_steps", 4000))
    trace = []
    vtime = ra.time  # the patched VTime instance
    jit_step = bool(job.get("jit_step", False))
    nodes, sup = build_nodes(spec, xp="jnp" if jit_step else "np", trace=trace, clock=clock, vtime=vtime)
    ids = node_ids(spec)
    t0 = _time.time()
    g = ra.AsyncGraph(
        nodes,
        supervisor=sup,
        clock=const.Clock.SIMULATED if clock == "SIM" else const.Clock.WALL_CLOCK,
        real_time_factor=job.get("rtf", 0) if clock == "SIM" else const.RealTimeFactor.REAL_TIME,
    )
    rs = job.get("record", None)
    if rs is None:
        rs = dict(params=True, rng=True, inputs=True, state=True, output=True)
    g.set_record_settings(max_records=job.get("max_records", None), **rs)
    gs0 = g.init(jax.random.PRNGKey(job.get("seed", 0)))
    if job.get("profile") is not None:
        g.warmup(gs0, jit_step=jit_step, profile=job["profile"])  # a partial dict: unlisted nodes must not be test-run
    else:
        g.warmup(gs0, jit_step=jit_step)
    out = dict(episodes=[], obs=[], finished=False, exc=None, calls=[])
    if job.get("digest"):
        S.digest_fn = lambda en: _digest(g, S, en, out)

    def user():
        try:
            gs, ss = gs0, None
            eps_idx = -1
            running = False
            cur = None
            for op in job["user"]:
                kind = op[0]
                out["calls"].append(kind)
                if kind == "reset":
                    eps_idx += 1
                    cur = dict(obs=[], overridden=[], driver="step", eps=0 if job.get("same_eps") else eps_idx)
                    out["episodes"].append(cur)
                    gs, ss = g.reset(gs0.replace(eps=onp.int32(0 if job.get("same_eps") else eps_idx)))
                    running = True
                    cur["obs"].append(_obs(ss))
                elif kind == "reset_carry":
                    # a new episode started from the *last* graph state (per-node seq / ts / rng / state carried over), with
                    # fresh input buffers: the runtime must still number the steps of the new episode from 0
                    eps_idx += 1
                    cur = dict(obs=[], overridden=[], driver="step", eps=eps_idx, carried=True)
                    out["episodes"].append(cur)
                    gs, ss = g.reset(gs.replace(inputs=gs0.inputs, eps=onp.int32(eps_idx)))
                    running = True
                    cur["obs"].append(_obs(ss))
                elif kind == "step":
                    gs, ss = g.step(gs)
                    cur["obs"].append(_obs(ss))
                elif kind == "step_override":
                    seq = int(onp.asarray(ss.seq))
                    cur["overridden"].append(seq)
                    gs, ss = g.step(gs, ss, override_output(ids[sup.name], eps_idx, seq))
                    cur["obs"].append(_obs(ss))
                elif kind == "run":
                    if not running:
                        eps_idx += 1
                        cur = dict(obs=[], overridden=[], driver="run", eps=0 if job.get("same_eps") else eps_idx)
                        out["episodes"].append(cur)
                        gs = gs0.replace(eps=onp.int32(0 if job.get("same_eps") else eps_idx))
                        running = True
                    gs = g.run(gs)
                    cur["runs"] = cur.get("runs", 0) + 1
                elif kind == "idle":
                    # the user pauses until every worker has gone quiet (token-limited sources do): lifecycle calls must
                    # work "regardless of when the user calls them relative to the progress of the node threads"
                    me = S.current
                    S.yield_point(("user.idle",), blocked_on=lambda: not any(t.enabled() for t in S.threads if t is not me))
                elif kind == "set_delay":
                    # ["set_delay", "node", name, units] | ["set_delay", "edge", index, units]: change an *expected* delay
                    # between episodes (public API); phases of the next episode must follow
                    if op[1] == "node":
                        nodes[op[2]].set_delay(delay=op[3] * U)
                    else:
                        e_ = spec["edges"][op[2]]
                        nodes[e_["n"]].inputs[e_["o"]].set_delay(delay=op[3] * U)
                elif kind == "stop":
                    g.stop()
                    if running and cur is not None:
                        cur["record"], cur["fallback"], rexrec = summarize_record(g)
                        if keep_graph:
                            cur["_rexrec"] = rexrec
                        cur["trace_len"] = len(trace)
                    running = False
                else:
                    raise HarnessError(f"unknown user op {kind}")
                out["calls"][-1] = kind + ":done"
            out["finished"] = True
        except vs.Abort:
            raise
        except BaseException as e:  # noqa
            import traceback

            out["exc"] = (repr(e), traceback.format_exc()[-3000:])
            out["finished"] = True

    S.spawn("user", user)
    S.stop_when = lambda: out["finished"]
    try:
        stuck = S.run(job.get("prefix", ()))
    except vs.ReplayDivergence as e:
        S.shutdown()
        raise HarnessError(str(e))
    deadlock = None
    if not out["finished"]:
        deadlock = dict(blocked=S.describe_blocked(), cap_hit=S.cap_hit, calls=out["calls"], queues=_dump_queues(g))
    else:
        # drain: after the user script returned let the workers go quiescent (default choices, not recorded)
        S.stop_when = None
        S.max_steps = S.n_steps + 5000
        S.run((), record=False)
    res = dict(
        finished=out["finished"] and deadlock is None,
        deadlock=deadlock,
        user_exc=out["exc"],
        task_errors=[(a, b, c) for a, b, c, _ in S.task_errors],
        task_error_tb=[d for _, _, _, d in S.task_errors][:2],
        thread_errors=[(t.name, repr(t.exc), getattr(t, "exc_tb", "")) for t in S.threads if t.exc is not None],
        points=[(n, c) for n, c, _, _ in S.points],
        digests=[d for _, _, _, d in S.points] if job.get("digest") else None,
        n_points=len(S.points),
        n_steps=S.n_steps,
        sig=hash(tuple(S.sig)) & 0xFFFFFFFF,
        episodes=out["episodes"],
        trace=trace,
        debug_points=S.debug,
        init_rng={n: onp.asarray(gs0.rng[n]).astype(onp.uint32).tolist() for n in nodes},
        wall=_time.time() - t0,
    )
    S.shutdown()
    if keep_graph:
        res["_graph"] = g
        res["_nodes"] = nodes
        res["_gs0"] = gs0
    return res


def _digest(g, S, en, out):
    """Abstract state of the implementation at a decision point: program counters of every virtual thread (rex frames),
    what each thread is about to do, and the shared lifecycle state. Used to prune the schedule tree: two prefixes that
    reach the same abstract state have the same futures (as far as the lifecycle handshake is concerned)."""
    import sys as _sys

    frames = _sys._current_frames()
    th = []
    for t in S.threads:
        fr = frames.get(t.t.ident)
        pcs = []
        while fr is not None:
            fn = fr.f_code.co_filename
            if fn.endswith("asynchronous.py") or fn.endswith("asyncx.py"):
                pcs.append((fr.f_code.co_name, fr.f_lineno))
            fr = fr.f_back
        pend = t.pending
        pend = (pend[0],) + tuple(x for x in pend[1:] if isinstance(x, str)) if pend else None
        th.append((t.name, t.done, t.enabled(), pend, tuple(pcs)))
    sh = []
    for nm, w in g._async_nodes.items():
        cap = lambda x: x if (x is None or x < 4) else 4  # noqa: counters saturate (the handshake does not depend on their value)
        sh.append((nm, str(w._state), cap(w._tick), cap(len(w.q_tick or ())), cap(len(w.q_ts_scheduled or ())), cap(len(w.q_ts_end_prev or ())), cap(len(w.q_ts_start or ())), cap(len(w._record_steps or ())),
                   tuple(getattr(x[1], "__name__", "?") for x in list(w._executor.q)[:4]), w._eps, getattr(w, "_step_state", None) is None))
        for i, c in w.inputs.items():
            sh.append((nm, i, str(c._state), cap(c._tick), cap(len(c.q_msgs or ())), cap(len(c.q_ts_input or ())), cap(len(c.q_expected_select or ())), cap(len(c.q_grouped or ())), cap(len(c.q_ts_next_step or ())),
                       cap(len(c.q_zip_delay or ())), cap(len(c.q_zip_msgs or ())), tuple(getattr(x[1], "__name__", "?") for x in list(c._executor.q)[:4])))
    sy = g._synchronizer
    qa, qo = list(getattr(sy, "_q_act", ())), list(getattr(sy, "_q_obs", ()))
    sh.append(("sync", getattr(sy, "_must_reset", None), min(len(qa), 3), tuple(f._state for f in qa[-2:]), min(len(qo), 3), tuple(f._state for f in qo[:1] + qo[-1:]),
               getattr(getattr(sy, "_f_act", None), "_state", None), getattr(getattr(sy, "_f_obs", None), "_state", None), g._initial_step, tuple(out["calls"])))
    return hash((tuple(th), tuple(sh), tuple(t.name for t in en)))


def _dump_queues(g):
    d = {}
    for nm, w in g._async_nodes.items():
        d[nm] = dict(
            state=str(w._state), tick=w._tick, q_tick=len(w.q_tick or ()), q_ts_scheduled=list(w.q_ts_scheduled or ()), q_ts_end_prev=list(w.q_ts_end_prev or ()),
            q_ts_start=[(t, s) for t, s, _, _ in (w.q_ts_start or ())], steps=len(w._record_steps or []),
        )
        for i, c in w.inputs.items():
            d[f"{nm}<-{i}"] = dict(
                state=str(c._state), tick=c._tick, q_ts_input=list(c.q_ts_input or ())[:6], q_ts_next_step=list(c.q_ts_next_step or ()), q_msgs=len(c.q_msgs or ()),
                q_expected_select=list(c.q_expected_select or ()), q_expected_ts_max=list(c.q_expected_ts_max or ()), q_grouped=len(c.q_grouped or ()),
                q_zip_delay=len(c.q_zip_delay or ()), q_zip_msgs=len(c.q_zip_msgs or ()),
            )
    return d
