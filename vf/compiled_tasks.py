"""Pool tasks for the compiled-runtime checks (C01, C06, C07, C08, C13)."""
import time
import traceback

import numpy as onp


def _prep(src):
    from vf.common import import_rex

    import_rex()
    from vf.fcomp import materialize
    from vf.refcomp import graphs_to_py

    graphs_raw, aux = materialize(src)
    if graphs_raw is None:
        return None, None, aux
    return graphs_raw, graphs_to_py(graphs_raw), aux


def _variants(arg):
    from vf.compiledx import MODES

    modes = arg.get("modes", MODES)
    return [(m, p) for m in modes for p in arg.get("prunes", (True, False))]


def c07_task(arg):
    """arg: dict(src=..., modes=..., prunes=..., s_init=bool). Static check of the schedule of every variant."""
    from vf.compiledx import build_graph, conns_meta
    from vf.probes import build_nodes
    from vf.refcomp import ref_schedule, timings_to_py

    src = arg["src"]
    out = dict(name=src["name"], instances=0, states=0, transitions=0, violations=[], skipped=None, stats=[])
    graphs_raw, eps_py, aux = _prep(src)
    if graphs_raw is None:
        out["skipped"] = "threaded episode not convertible (unfinished or empty connection)"
        return out
    S_prev = None
    for (mode, prune) in _variants(arg):
        nodes, sup = build_nodes(src["spec"], xp="jnp")
        for s_init in ([False, True] if (arg.get("s_init") and mode == "MCS") else [False]):
            kw = {}
            if s_init and S_prev is not None:
                kw["S_init"] = S_prev
            try:
                g = build_graph(nodes, sup, graphs_raw, mode, prune, **kw)
            except Exception as e:  # noqa
                out["violations"].append((f"graph-construction-raised:{type(e).__name__}", dict(mode=mode, prune=prune, s_init=s_init, exc=repr(e)[:300], tb=traceback.format_exc()[-800:]), dict(src=src, mode=mode, prune=prune, s_init=s_init)))
                continue
            if mode == "MCS" and not s_init:
                S_prev = g.S
            slots = timings_to_py(g.timings)
            v, st = ref_schedule(eps_py, conns_meta(nodes), slots, sup.name, prune)
            out["instances"] += 1
            out["states"] += st["episodes"] * st["partitions"] * st["slots"]
            out["transitions"] += st["scheduled"] + st["order_edges"]
            out["stats"].append(dict(mode=mode, prune=prune, s_init=s_init, **st))
            for sig, det in v:
                out["violations"].append((sig, dict(mode=mode, prune=prune, s_init=s_init, detail=det), dict(src=src, mode=mode, prune=prune, s_init=s_init)))
    return out


def c08_task(arg):
    """static replay of the schedule against the ring-buffer machine for every buffer option; dynamic probe run on request"""
    import jax

    from vf.compiledx import build_graph, buffer_sizes, conns_meta, init_with_rng, rollout_with_record
    from vf.probes import build_nodes, node_ids
    from vf.refcomp import ref_buffer, timings_to_py

    src = arg["src"]
    out = dict(name=src["name"], instances=0, states=0, transitions=0, traces=0, violations=[], skipped=None, rejected=0, stats=[])
    graphs_raw, eps_py, aux = _prep(src)
    if graphs_raw is None:
        out["skipped"] = "threaded episode not convertible"
        return out
    ids = node_ids(src["spec"])
    for (mode, prune) in _variants(arg):
        trace = []
        nodes, sup = build_nodes(src["spec"], xp="jnp", trace=trace if arg.get("dynamic") else None)
        g0 = build_graph(nodes, sup, graphs_raw, mode, prune)
        auto = buffer_sizes(g0)
        slots = timings_to_py(g0.timings)
        cm = conns_meta(nodes)
        options = [("auto", {}, auto), ("auto+pad1", dict(extra_padding=1), None), ("user=auto", dict(buffer_sizes=dict(auto)), None),
                   ("user=auto+2", dict(buffer_sizes={k: v + 2 for k, v in auto.items()}), None)]
        for oname, kw, sizes in options:
            rp = dict(src=src, mode=mode, prune=prune, option=oname, dynamic=bool(arg.get("dynamic")))
            try:
                g = g0 if not kw else build_graph(nodes, sup, graphs_raw, mode, prune, **kw)
            except Exception as e:  # noqa
                out["violations"].append((f"admissible-buffer-option-rejected:{oname}", dict(mode=mode, prune=prune, exc=repr(e)[:300]), rp))
                continue
            sizes = sizes or buffer_sizes(g)
            v, st = ref_buffer(eps_py, cm, timings_to_py(g.timings) if kw else slots, sup.name, sizes)
            out["instances"] += 1
            out["states"] += st["writes"]
            out["transitions"] += st["reads"]
            for sig, det in v:
                out["violations"].append((sig, dict(mode=mode, prune=prune, option=oname, sizes=sizes, detail=det), rp))
            if arg.get("dynamic") and oname in arg.get("dynamic_options", ("auto", "user=auto+2")):
                for e in range(len(eps_py)):
                    del trace[:]
                    gs = init_with_rng(g, None, eps=e, seed=arg.get("seed", 0))
                    o = rollout_with_record(g, gs, record=False)
                    jax.effects_barrier()
                    out["traces"] += 1
                    for t in trace:
                        for (iname, seqs, a, b, dh, tags) in t["inputs"]:
                            pid = ids[iname]
                            for sq, tag in zip(seqs, tags):
                                out["transitions"] += 1
                                exp = [pid, e, sq] if sq >= 0 else [pid, -1, -1]
                                if list(tag) != exp:
                                    out["violations"].append(("window-entry-wrong-payload", dict(mode=mode, prune=prune, option=oname, eps=e, node=t["node"], seq=t["seq"], input=iname, entry_seq=sq, got_tag=list(tag), expected=exp), rp))
                    if not trace:
                        out["violations"].append(("dynamic-run-produced-no-trace", dict(mode=mode, prune=prune), rp))
        # an inadmissible size must be rejected by Graph.__init__
        big = {k: v for k, v in auto.items() if v > 1}
        if big:
            k0 = sorted(big)[0]
            try:
                build_graph(nodes, sup, graphs_raw, mode, prune, buffer_sizes={k0: big[k0] - 1})
                out["violations"].append(("inadmissible-buffer-size-accepted", dict(mode=mode, prune=prune, node=k0, size=big[k0] - 1, needed=big[k0]), dict(src=src, mode=mode, prune=prune, option="auto-1")))
            except AssertionError:
                out["rejected"] += 1
        out["violations"] = out["violations"][:12]
    return out
