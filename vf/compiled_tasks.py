"""Pool tasks for the compiled-runtime checks (C01, C06, C07, C08, C13)."""
import time
import traceback

import numpy as onp


def _prep(src):
    from vf.common import import_rex

    import_rex()
    from vf.fcomp import materialize
    from vf.refcomp import graphs_to_py

    graphs_raw, aux = materialize(src)
    if graphs_raw is None:
        return None, None, aux
    return graphs_raw, graphs_to_py(graphs_raw), aux


def _variants(arg):
    from vf.compiledx import MODES

    modes = arg.get("modes", MODES)
    return [(m, p) for m in modes for p in arg.get("prunes", (True, False))]


def c07_task(arg):
    """arg: dict(src=..., modes=..., prunes=..., s_init=bool). Static check of the schedule of every variant."""
    from vf.compiledx import build_graph, conns_meta
    from vf.probes import build_nodes
    from vf.refcomp import ref_schedule, timings_to_py

    src = arg["src"]
    out = dict(name=src["name"], instances=0, states=0, transitions=0, violations=[], skipped=None, stats=[])
    graphs_raw, eps_py, aux = _prep(src)
    if graphs_raw is None:
        out["skipped"] = "threaded episode not convertible (unfinished or empty connection)"
        return out
    S_prev = None
    for (mode, prune) in _variants(arg):
        nodes, sup = build_nodes(src["spec"], xp="jnp")
        for s_init in ([False, True] if (arg.get("s_init") and mode == "MCS") else [False]):
            kw = {}
            if s_init and S_prev is not None:
                kw["S_init"] = S_prev
            try:
                g = build_graph(nodes, sup, graphs_raw, mode, prune, **kw)
            except Exception as e:  # noqa
                out["violations"].append((f"graph-construction-raised:{type(e).__name__}", dict(mode=mode, prune=prune, s_init=s_init, exc=repr(e)[:300], tb=traceback.format_exc()[-800:]), dict(src=src, mode=mode, prune=prune, s_init=s_init)))
                continue
            if mode == "MCS" and not s_init:
                S_prev = g.S
            slots = timings_to_py(g.timings)
            v, st = ref_schedule(eps_py, conns_meta(nodes), slots, sup.name, prune)
            out["instances"] += 1
            out["states"] += st["episodes"] * st["partitions"] * st["slots"]
            out["transitions"] += st["scheduled"] + st["order_edges"]
            out["stats"].append(dict(mode=mode, prune=prune, s_init=s_init, **st))
            for sig, det in v:
                out["violations"].append((sig, dict(mode=mode, prune=prune, s_init=s_init, detail=det), dict(src=src, mode=mode, prune=prune, s_init=s_init)))
    return out


def c08_task(arg):
    """static replay of the schedule against the ring-buffer machine for every buffer option; dynamic probe run on request"""
    import jax

    from vf.compiledx import build_graph, buffer_sizes, conns_meta, init_with_rng, rollout_with_record
    from vf.probes import build_nodes, node_ids
    from vf.refcomp import ref_buffer, timings_to_py

    src = arg["src"]
    out = dict(name=src["name"], instances=0, states=0, transitions=0, traces=0, violations=[], skipped=None, rejected=0, stats=[])
    graphs_raw, eps_py, aux = _prep(src)
    if graphs_raw is None:
        out["skipped"] = "threaded episode not convertible"
        return out
    ids = node_ids(src["spec"])
    for (mode, prune) in _variants(arg):
        trace = []
        nodes, sup = build_nodes(src["spec"], xp="jnp", trace=trace if arg.get("dynamic") else None)
        g0 = build_graph(nodes, sup, graphs_raw, mode, prune)
        auto = buffer_sizes(g0)
        slots = timings_to_py(g0.timings)
        cm = conns_meta(nodes)
        options = [("auto", {}, auto), ("auto+pad1", dict(extra_padding=1), None), ("user=auto", dict(buffer_sizes=dict(auto)), None),
                   ("user=auto+2", dict(buffer_sizes={k: v + 2 for k, v in auto.items()}), None)]
        for oname, kw, sizes in options:
            rp = dict(src=src, mode=mode, prune=prune, option=oname, dynamic=bool(arg.get("dynamic")))
            try:
                g = g0 if not kw else build_graph(nodes, sup, graphs_raw, mode, prune, **kw)
            except Exception as e:  # noqa
                out["violations"].append((f"admissible-buffer-option-rejected:{oname}", dict(mode=mode, prune=prune, exc=repr(e)[:300]), rp))
                continue
            sizes = sizes or buffer_sizes(g)
            v, st = ref_buffer(eps_py, cm, timings_to_py(g.timings) if kw else slots, sup.name, sizes)
            out["instances"] += 1
            out["states"] += st["writes"]
            out["transitions"] += st["reads"]
            for sig, det in v:
                out["violations"].append((sig, dict(mode=mode, prune=prune, option=oname, sizes=sizes, detail=det), rp))
            if arg.get("dynamic") and oname in arg.get("dynamic_options", ("auto", "auto+pad1", "user=auto+2")):
                for e in range(len(eps_py)):
                    del trace[:]
                    gs = init_with_rng(g, None, eps=e, seed=arg.get("seed", 0))
                    o = rollout_with_record(g, gs, record=False)
                    jax.effects_barrier()
                    out["traces"] += 1
                    for t in trace:
                        for (iname, seqs, a, b, dh, tags) in t["inputs"]:
                            pid = ids[iname]
                            for sq, tag in zip(seqs, tags):
                                out["transitions"] += 1
                                exp = [pid, e, sq] if sq >= 0 else [pid, -1, -1]
                                if list(tag) != exp:
                                    out["violations"].append(("window-entry-wrong-payload", dict(mode=mode, prune=prune, option=oname, eps=e, node=t["node"], seq=t["seq"], input=iname, entry_seq=sq, got_tag=list(tag), expected=exp), rp))
                    if not trace:
                        out["violations"].append(("dynamic-run-produced-no-trace", dict(mode=mode, prune=prune), rp))
                # gym-style driver of a stateless agent: every step() overrides the supervisor with the step state it got
                # from reset() and an output tagged with the scheduled sequence number; readers of the supervisor's output
                # must still find (supervisor, eps, seq) at the scheduled entries
                if oname == "auto" and any(e_["o"] == sup.name for e_ in src["spec"]["edges"]) and g.max_steps >= 3:
                    from vf.probes import override_output

                    del trace[:]
                    e = 0
                    gs = init_with_rng(g, None, eps=e, seed=arg.get("seed", 0))
                    gs, ss0 = jax.jit(g.reset)(gs)
                    stepo = jax.jit(lambda a, b, c: g.step(a, b, c))
                    for k in range(min(g.max_steps - 1, 4)):
                        gs, _ = stepo(gs, ss0, override_output(ids[sup.name], e, k))
                    jax.block_until_ready(gs)
                    jax.effects_barrier()
                    out["traces"] += 1
                    for t in trace:
                        for (iname, seqs, a, b, dh, tags) in t["inputs"]:
                            pid = ids[iname]
                            for sq, tag in zip(seqs, tags):
                                out["transitions"] += 1
                                exp = [pid, e, sq] if sq >= 0 else [pid, -1, -1]
                                if list(tag) != exp:
                                    out["violations"].append(("window-entry-wrong-payload:override-with-stale-step-state", dict(mode=mode, prune=prune, node=t["node"], seq=t["seq"], input=iname, entry_seq=sq, got_tag=list(tag), expected=exp), rp))
                    del trace[:]
        # an inadmissible size must be rejected by Graph.__init__
        big = {k: v for k, v in auto.items() if v > 1}
        if big:
            k0 = sorted(big)[0]
            try:
                build_graph(nodes, sup, graphs_raw, mode, prune, buffer_sizes={k0: big[k0] - 1})
                out["violations"].append(("inadmissible-buffer-size-accepted", dict(mode=mode, prune=prune, node=k0, size=big[k0] - 1, needed=big[k0]), dict(src=src, mode=mode, prune=prune, option="auto-1")))
            except AssertionError:
                out["rejected"] += 1
        out["violations"] = out["violations"][:12]
    return out


def _cmp_step(n, k, c, a, px, e, is_sup, a_done, errs, sup_last):
    """one executed compiled row (node n, seq k): compiled record c vs threaded record a vs reference payload px"""
    from vf.probes import f32_bits

    def err(sig, *d):
        if len(errs) < 10:
            errs.append((sig, (n, k) + d))

    if c["eps"][k] != e:
        err("eps", c["eps"][k], e)
    if c["seq"][k] != k:
        err("seq", c["seq"][k])
    if c["ts_bits"][k] != px["ts_bits"]:
        err("ts_start:vs-reference", c["ts_start"][k])
    if tuple(c["rng"][k]) != tuple(px["rng"]):
        err("rng:vs-reference", c["rng"][k], px["rng"])
    if c["state_h"][k] != px["state_before"]:
        err("state:vs-reference", c["state_h"][k], px["state_before"])
    if not (is_sup and k == sup_last) and c["out_h"][k] != px["out_h"]:
        err("output:vs-reference", c["out_h"][k], px["out_h"])
    for o, w in c["inputs"].items():
        expw = px["windows"][o]
        for x, (s, ta, tb, dh) in enumerate(expw):
            gs_ = w["seq"][k][x]
            if (gs_ < 0) != (s < 0) or (s >= 0 and gs_ != s):
                err("window.seq:vs-reference", o, w["seq"][k], [y[0] for y in expw])
                break
            if w["data_h"][k][x] != dh:
                err("window.payload:vs-reference", o, w["data_h"][k], [y[3] for y in expw])
                break
            if s >= 0 and (f32_bits(w["ts_sent"][k][x]) != f32_bits(ta) or f32_bits(w["ts_recv"][k][x]) != f32_bits(tb)):
                err("window.ts:vs-reference", o, (w["ts_sent"][k][x], w["ts_recv"][k][x]), (ta, tb))
                break
    if a is None or k >= len(a["seq"]):
        err("step-not-in-threaded-record")
        return
    if is_sup and k > a_done:
        return  # the threaded run never executed (nor observed) this supervisor step
    if f32_bits(a["ts_start"][k]) != c["ts_bits"][k]:
        err("ts_start:vs-threaded", c["ts_start"][k], a["ts_start"][k])
    if tuple(a["rng"][k]) != tuple(c["rng"][k]):
        err("rng:vs-threaded", c["rng"][k], a["rng"][k])
    if a["state_h"][k] != c["state_h"][k]:
        err("state:vs-threaded", c["state_h"][k], a["state_h"][k])
    if k < len(a["out_h"]) and not (is_sup and (k >= a_done or k == sup_last)) and a["out_h"][k] != c["out_h"][k]:
        err("output:vs-threaded", c["out_h"][k], a["out_h"][k])
    for o, w in c["inputs"].items():
        aw = a["inputs"][o]
        for x in range(len(w["seq"][k])):
            gs_, as_ = w["seq"][k][x], aw["seq"][k][x]
            if (gs_ < 0) != (as_ < 0) or (as_ >= 0 and gs_ != as_):
                err("window.seq:vs-threaded", o, w["seq"][k], aw["seq"][k])
                break
            if w["data_h"][k][x] != aw["data_h"][k][x]:
                err("window.payload:vs-threaded", o, w["data_h"][k], aw["data_h"][k])
                break
            if "data_tag" in w and "data_tag" in aw and list(w["data_tag"][k][x]) != list(aw["data_tag"][k][x]):
                # every leaf of the payload (also multi-element ones) is the same message in both runtimes
                err("window.payload-leaf:vs-threaded", o, w["data_tag"][k][x], aw["data_tag"][k][x])
                break
            if as_ >= 0 and (f32_bits(w["ts_sent"][k][x]) != f32_bits(aw["ts_sent"][k][x]) or f32_bits(w["ts_recv"][k][x]) != f32_bits(aw["ts_recv"][k][x])):
                err("window.ts:vs-threaded", o, w["ts_recv"][k], aw["ts_recv"][k])
                break


def c01_task(arg):
    """threaded record -> graph -> compiled rollout, three-way comparison of every executed step"""
    from vf.compiledx import build_graph, conns_meta, init_with_rng, make_rollout, rollout_with_record, summarize_compiled_record
    from vf.probes import build_nodes, f32_bits, node_ids
    from vf.refcomp import RefExec

    src = arg["src"]
    out = dict(name=src["name"], instances=0, states=0, transitions=0, traces=0, violations=[], skipped=None)
    graphs_raw, eps_py, aux = _prep(src)
    if graphs_raw is None:
        out["skipped"] = "threaded episode not convertible (unfinished or empty connection)"
        return out
    res = aux["result"]
    a_eps = [ep for ep in res["episodes"] if "record" in ep]
    ids = node_ids(src["spec"])
    for (mode, prune) in _variants(arg):
        nodes, sup = build_nodes(src["spec"], xp="jnp")
        g = build_graph(nodes, sup, graphs_raw, mode, prune)
        cm = conns_meta(nodes)
        fn = make_rollout(g)
        for e, aep in enumerate(a_eps):
            rp = dict(src=src, mode=mode, prune=prune, eps=e)
            gs = init_with_rng(g, res["init_rng"], eps=e)
            o = rollout_with_record(g, gs, fn=fn)
            crec = summarize_compiled_record(o.aux["record"])
            rx = RefExec(eps_py[e], cm, ids, e, res["init_rng"])
            a_done = (len(aep["obs"]) - 1) if aep["driver"] == "step" else aep.get("runs", 0)
            errs = []
            n_exec = 0
            for n, c in crec.items():
                c["ts_bits"] = [f32_bits(x) for x in c["ts_start"]]
                ex = [k for k, s in enumerate(c["seq"]) if s >= 0]
                is_sup = n == sup.name
                sup_last = max(ex) if (is_sup and ex) else -1
                for k in ex:
                    n_exec += 1
                    _cmp_step(n, k, c, aep["record"][n]["steps"], rx.payload(n, k), e, is_sup, a_done, errs, sup_last)
                if is_sup and len(ex) < g.max_steps:
                    errs.append(("supervisor-steps-not-executed", (n, len(ex), g.max_steps)))
            out["instances"] += 1
            out["traces"] += 1
            out["states"] += n_exec
            out["transitions"] += n_exec
            seen = set()
            for sig, det in errs:
                if sig not in seen:
                    seen.add(sig)
                    out["violations"].append((sig, dict(mode=mode, prune=prune, eps=e, detail=det), rp))
    out["violations"] = out["violations"][:12]
    return out


def _expected_executions(slots, sup, e, n_runs, overridden=(), include_sup_upto=None):
    """multiset {(kind, seq): 1} the compiled runtime must execute in episode e when n_runs partitions are run"""
    import collections

    exp = collections.Counter()
    for name, s in slots.items():
        for p in range(n_runs):
            if s["run"][e, p]:
                if s["kind"] == sup:
                    continue
                exp[(s["kind"], int(s["seq"][e, p]))] += 1
    upto = n_runs if include_sup_upto is None else include_sup_upto
    for p in range(upto):
        if p not in overridden:
            exp[(sup, p)] += 1
    return exp


def c06c_task(arg):
    """compiled half of C06: count executions of every probe step through an ordered io_callback"""
    import collections

    import jax

    from vf.compiledx import build_graph, init_with_rng, make_rollout
    from vf.probes import build_nodes, node_ids, override_output
    from vf.refcomp import timings_to_py

    src = arg["src"]
    out = dict(name=src["name"], instances=0, states=0, transitions=0, traces=0, violations=[], skipped=None, uniform=0)
    graphs_raw, eps_py, aux = _prep(src)
    if graphs_raw is None:
        out["skipped"] = "threaded episode not convertible"
        return out
    ids = node_ids(src["spec"])
    for (mode, prune) in _variants(arg):
        trace = []
        nodes, sup = build_nodes(src["spec"], xp="jnp", trace=trace)
        g = build_graph(nodes, sup, graphs_raw, mode, prune)
        slots = timings_to_py(g.timings)
        P = next(iter(slots.values()))["run"].shape[1]
        M = P - 1

        def judge(tag, e, exp):
            jax.effects_barrier()
            got = collections.Counter((t["node"], t["seq"]) for t in trace)
            wrong_eps = [t for t in trace if t["eps"] != e]
            out["traces"] += 1
            out["states"] += len(exp)
            out["transitions"] += len(trace)
            rp = dict(src=src, mode=mode, prune=prune, driver=tag, eps=e)
            if wrong_eps:
                out["violations"].append(("compiled:step-with-wrong-eps", dict(mode=mode, driver=tag, eps=e, got=wrong_eps[0]["eps"]), rp))
            if got != exp:
                diff = {str(k): (got.get(k, 0), exp.get(k, 0)) for k in set(got) | set(exp) if got.get(k, 0) != exp.get(k, 0)}
                kinds = sorted({"twice" if a > b else "missing" for a, b in diff.values()})
                out["violations"].append(("compiled:exactly-once:" + ",".join(kinds), dict(mode=mode, prune=prune, driver=tag, eps=e, diff=dict(list(diff.items())[:8])), rp))
            del trace[:]

        fn = make_rollout(g, record=False)
        for e in range(len(eps_py)):
            del trace[:]
            gs = init_with_rng(g, None, eps=e)
            jax.block_until_ready(fn(gs))
            judge("rollout-jit", e, _expected_executions(slots, sup.name, e, M))
        # the full-trajectory rollout (lax.scan over run) must execute every scheduled tick once as well
        e = 0
        del trace[:]
        gs = init_with_rng(g, None, eps=e)
        jax.block_until_ready(jax.jit(lambda a: g.rollout(a, carry_only=False))(gs))
        judge("rollout-full-jit", e, _expected_executions(slots, sup.name, e, M))
        # a second episode continued from the final state of the first (replace_eps / replace_step, no re-init)
        if len(eps_py) > 1:
            del trace[:]
            gs = init_with_rng(g, None, eps=0)
            gs = fn(gs)
            jax.block_until_ready(gs)
            jax.effects_barrier()
            del trace[:]
            gs = gs.replace_eps(g.timings, 1).replace_step(g.timings, 0)
            jax.block_until_ready(fn(gs))
            judge("continued-second-episode", 1, _expected_executions(slots, sup.name, 1, M))
        # starting in the middle of an episode: the steps of partitions k, k+1 run with the vertices' own sequence numbers
        if M >= 3:
            del trace[:]
            gs = init_with_rng(g, None, eps=0, step=1)
            runj = jax.jit(g.run)
            gs = runj(runj(gs))
            jax.block_until_ready(gs)
            exp = collections.Counter()
            for name, s_ in slots.items():
                for p_ in (1, 2):
                    if s_["run"][0, p_] and s_["kind"] != sup.name:
                        exp[(s_["kind"], int(s_["seq"][0, p_]))] += 1
            # (the supervisor's own steps depend on its carried-over counter when entering mid-episode: not part of the count)
            jax.effects_barrier()
            got = collections.Counter((t["node"], t["seq"]) for t in trace if t["node"] != sup.name)
            out["traces"] += 1
            out["transitions"] += len(trace)
            if got != exp:
                diff = {str(k): (got.get(k, 0), exp.get(k, 0)) for k in set(got) | set(exp) if got.get(k, 0) != exp.get(k, 0)}
                out["violations"].append(("compiled:mid-episode-start:steps-run-with-wrong-seq", dict(mode=mode, prune=prune, diff=dict(list(diff.items())[:8])), dict(src=src, mode=mode, prune=prune, driver="start-step-1", eps=0)))
            del trace[:]
        if arg.get("eager", True):
            e = len(eps_py) - 1
            gs = init_with_rng(g, None, eps=e)
            for _ in range(min(M, 2)):
                gs = g.run(gs)
            jax.block_until_ready(gs)
            judge("run-eager-x2", e, _expected_executions(slots, sup.name, e, min(M, 2)))
            # reset / step with the supervisor's step overridden on odd steps
            gs = init_with_rng(g, None, eps=0)
            gs, ss = jax.jit(g.reset)(gs)
            step_plain = jax.jit(lambda a: g.step(a))
            step_ovr = jax.jit(lambda a, b, c: g.step(a, b, c))
            ovr = []
            nst = min(M - 1, 3)
            for k in range(nst):
                if k % 2 == 1:
                    ovr.append(k)
                    gs, ss = step_ovr(gs, ss, override_output(ids[sup.name], 0, k))
                else:
                    gs, ss = step_plain(gs)
            jax.block_until_ready(gs)
            judge("reset-step-override", 0, _expected_executions(slots, sup.name, 0, nst + 1, overridden=ovr, include_sup_upto=nst))
        if arg.get("disable_jit"):
            with jax.disable_jit():
                gs = init_with_rng(g, None, eps=0)
                gs = g.run(gs)
                gs = g.run(gs) if M >= 2 else gs
                jax.block_until_ready(gs)
            judge("run-disable_jit", 0, _expected_executions(slots, sup.name, 0, min(M, 2)))
        out["instances"] += 1
    out["violations"] = out["violations"][:12]
    return out


# ---------------------------------------------------------------------------------------------------------------
# C13 recording is faithful and never changes the execution
# ---------------------------------------------------------------------------------------------------------------
def _combos(which):
    import itertools

    keys = ("params", "rng", "inputs", "state", "output")
    allc = [dict(zip(keys, bits)) for bits in itertools.product((False, True), repeat=5)]
    if which == "all":
        return allc
    return [allc[i] for i in which]


def _row_vs_trace(n, k, row, t, errs, tag):
    """row: dict of the recorded fields of (n, k) (only those recorded); t: the probe's own trace entry"""
    from vf.probes import f32_bits

    def err(sig, *d):
        if len(errs) < 10:
            errs.append((f"{tag}:{sig}", (n, k) + d))

    if row.get("seq") != k:
        err("seq", row.get("seq"))
    if f32_bits(row["ts_start"]) != f32_bits(t["ts"]):
        err("ts_start", row["ts_start"], t["ts"])
    if "rng" in row and [int(x) & 0xFFFFFFFF for x in row["rng"]] != [int(x) for x in t["rng"]]:
        err("rng", row["rng"], t["rng"])
    if "state_h" in row and int(row["state_h"]) & 0xFFFFFFFF != t["state_h"]:
        err("state", row["state_h"], t["state_h"])
    if "out_h" in row and row["out_h"] is not None and int(row["out_h"]) & 0xFFFFFFFF != t["out_h"]:
        err("output", row["out_h"], t["out_h"])
    if "inputs" in row:
        tin = {x[0]: x for x in t["inputs"]}
        for o, w in row["inputs"].items():
            _, seqs, a, b, dh, tags = tin[o]
            if [(-1 if s < 0 else s) for s in w["seq"]] != [(-1 if s < 0 else s) for s in seqs]:
                err("inputs.seq", o, w["seq"], seqs)
            elif [int(x) & 0xFFFFFFFF for x in w["data_h"]] != [int(x) for x in dh]:
                err("inputs.data", o, w["data_h"], dh)
            elif any(s >= 0 and (f32_bits(x) != f32_bits(y) or f32_bits(u) != f32_bits(v)) for s, x, y, u, v in zip(seqs, w["ts_sent"], a, w["ts_recv"], b)):
                err("inputs.ts", o, w["ts_recv"], b)


def _rows(summary_node, combo):
    """iterate (k, row dict) over a summarized record of one node (threaded or compiled)"""
    st = summary_node
    for k, s in enumerate(st["seq"]):
        row = dict(seq=s, ts_start=st["ts_start"][k])
        if "rng" in st:
            row["rng"] = st["rng"][k]
        if "state_h" in st:
            row["state_h"] = st["state_h"][k]
        if "out_h" in st:
            row["out_h"] = st["out_h"][k] if k < len(st["out_h"]) else None
        if "inputs" in st:
            row["inputs"] = {o: {f: w[f][k] for f in ("seq", "ts_sent", "ts_recv", "data_h")} for o, w in st["inputs"].items()}
        yield k, row


def c13_threaded_task(arg):
    """threaded runtime: one spec, a list of (combo, max_records); baseline = recording off, same base schedule"""
    from vf.asyncx import run_job

    spec, user, policy = arg["spec"], arg["user"], arg["policy"]
    out = dict(name=arg["name"], instances=0, states=0, transitions=0, traces=0, violations=[], skipped=None)
    off = dict(params=False, rng=False, inputs=False, state=False, output=False)
    base = run_job(dict(spec=spec, user=user, policy=policy, record=off))
    if not base["finished"]:
        out["skipped"] = "baseline episode did not finish"
        return out

    def observable(res):
        tr = [{k: v for k, v in t.items() if k != "thread"} for t in res["trace"]]
        return dict(trace=tr, obs=[ep["obs"] for ep in res["episodes"]])

    b_obs = observable(base)
    sup = spec["supervisor"]
    for combo, maxrec in arg["cases"]:
        job = dict(spec=spec, user=user, policy=policy, record=combo, max_records=maxrec)
        res = run_job(job)
        rp = dict(kind="threaded", job=job)
        out["instances"] += 1
        out["traces"] += 1
        errs = []
        if not res["finished"]:
            errs.append(("threaded:recording-changed-liveness", (combo, maxrec)))
        else:
            if observable(res) != b_obs:
                o = observable(res)
                where = "obs" if o["obs"] != b_obs["obs"] else ("trace-length" if len(o["trace"]) != len(b_obs["trace"]) else "trace")
                errs.append(("threaded:recording-changed-execution:" + where, (combo, maxrec)))
            start = 0
            for ep in res["episodes"]:
                if "record" not in ep:
                    continue
                tr = {(t["node"], t["seq"]): t for t in res["trace"][start : ep["trace_len"]]}
                start = ep["trace_len"]
                done = (len(ep["obs"]) - 1) if ep["driver"] == "step" else ep.get("runs", 0)
                for n, nr in ep["record"].items():
                    st = nr["steps"]
                    K = len(st["seq"])
                    out["states"] += K
                    if maxrec is not None and K > maxrec:
                        errs.append(("threaded:more-rows-than-max_records", (n, K, maxrec)))
                    has_inputs = any(e_["n"] == n for e_ in spec["edges"])
                    for f, present in (("rng", combo["rng"]), ("state_h", combo["state"]), ("out_h", combo["output"]), ("inputs", combo["inputs"])):
                        if f == "inputs" and not has_inputs:
                            continue
                        if (f in st) != bool(present) and K > 0:
                            errs.append(("threaded:record-setting-not-honoured", (n, f, present)))
                    for k, row in _rows(st, combo):
                        out["transitions"] += 1
                        if n == sup and (k >= done or k in ep["overridden"]):
                            continue  # never executed by node.step: no trace entry to compare with
                        t = tr.get((n, k))
                        if t is None:
                            errs.append(("threaded:recorded-step-never-executed", (n, k)))
                            continue
                        _row_vs_trace(n, k, row, t, errs, "threaded")
                        if "state_h" in st and k + 1 < K and not (n == sup and k + 1 > done) and st["state_h"][k + 1] != t["out_h"]:
                            errs.append(("threaded:state-before-next-step!=state-returned", (n, k, st["state_h"][k + 1], t["out_h"])))
                        # the per-connection message records: every message the step really used (probe trace) is listed,
                        # assigned to a step <= k, and nothing is assigned to a step that was not recorded
                        for (iname, seqs, a_, b_, dh_, tags_) in t["inputs"]:
                            ms = nr["inputs"].get(iname)
                            if ms is None:
                                continue
                            where = {so: si for so, si in zip(ms["seq_out"], ms["seq_in"])}
                            for sq in seqs:
                                if sq >= 0 and (sq not in where or where[sq] > k):
                                    errs.append(("threaded:message-used-by-step-missing-from-input-record", (n, k, iname, sq, where.get(sq))))
                    for o_, ms in nr["inputs"].items():
                        if ms["seq_in"] and K > 0 and max(ms["seq_in"]) > st["seq"][-1]:
                            errs.append(("threaded:input-record-lists-message-of-unrecorded-step", (n, o_, max(ms["seq_in"]), st["seq"][-1])))
        seen = set()
        for sig, det in errs:
            if sig not in seen:
                seen.add(sig)
                out["violations"].append((sig, dict(combo=combo, max_records=maxrec, detail=det), rp))
    out["violations"] = out["violations"][:12]
    return out


def _leaves_no_aux(gs):
    import jax

    g = gs.replace(aux=None)
    return [onp.asarray(x) for x in jax.tree_util.tree_leaves(g)]


def c13_compiled_task(arg):
    """compiled runtime: one source/mode, list of combos; n runs in 0..M+2; baseline = recording off"""
    import jax

    from vf.compiledx import build_graph, init_with_rng, summarize_compiled_record
    from vf.probes import build_nodes
    from vf.refcomp import timings_to_py

    src, mode, prune = arg["src"], arg["mode"], arg["prune"]
    out = dict(name=src["name"] + ":" + mode, instances=0, states=0, transitions=0, traces=0, violations=[], skipped=None)
    graphs_raw, eps_py, aux = _prep(src)
    if graphs_raw is None:
        out["skipped"] = "not convertible"
        return out
    trace = []
    nodes, sup = build_nodes(src["spec"], xp="jnp", trace=trace)
    g = build_graph(nodes, sup, graphs_raw, mode, prune)
    slots = timings_to_py(g.timings)
    M = g.max_steps
    run_off = jax.jit(g.run)
    for e in arg.get("eps", [0]):
        gs0 = init_with_rng(g, None, eps=e)
        base = [_leaves_no_aux(gs0)]
        gs = gs0
        for _ in range(M + 2):
            gs = run_off(gs)
            base.append(_leaves_no_aux(gs))
        jax.effects_barrier()
        for combo in arg["combos"]:
            rp = dict(kind="compiled", src=src, mode=mode, prune=prune, combos=[combo], eps=[e])
            errs = []
            del trace[:]
            gsr = g.init_record(gs0, **combo)
            run_on = jax.jit(g.run)
            states = [gsr]
            for _ in range(M + 2):
                states.append(run_on(states[-1]))
            jax.block_until_ready(states[-1])
            jax.effects_barrier()
            out["instances"] += 1
            out["traces"] += 1
            for n_runs, st in enumerate(states):
                out["transitions"] += 1
                lv = _leaves_no_aux(st)
                if len(lv) != len(base[n_runs]) or any(not onp.array_equal(a, b) for a, b in zip(lv, base[n_runs])):
                    errs.append(("compiled:recording-changed-execution", (n_runs,)))
                    break
            # record after exactly M runs vs the probe's own trace of those M runs
            del trace[:]
            st = gsr
            for _ in range(M):
                st = run_on(st)
            jax.block_until_ready(st)
            jax.effects_barrier()
            tr = {(t["node"], t["seq"]): t for t in trace}
            rec = summarize_compiled_record(st.aux["record"])
            for n, c in rec.items():
                K = len(c["seq"])
                out["states"] += K
                has_inputs = any(e_["n"] == n for e_ in src["spec"]["edges"])
                for f, present in (("rng", combo["rng"]), ("state_h", combo["state"]), ("out_h", combo["output"]), ("inputs", combo["inputs"]), ("params_p", combo["params"])):
                    if f == "inputs" and not has_inputs:
                        continue
                    if (f in c) != bool(present):
                        errs.append(("compiled:record-setting-not-honoured", (n, f, present)))
                for k, row in _rows(c, combo):
                    t = tr.get((n, k))
                    executed = row["seq"] >= 0
                    if n == sup.name:
                        # the supervisor's row k is written (inputs/state/rng) when partition k closes, its output when it steps
                        if executed and k < M and t is not None:
                            _row_vs_trace(n, k, row, t, errs, "compiled")
                        elif executed and k < M and t is None:
                            errs.append(("compiled:recorded-step-never-executed", (n, k)))
                        continue
                    if t is None:
                        if executed:
                            errs.append(("compiled:recorded-step-never-executed", (n, k)))
                        else:  # never executed rows stay marked with -1 (unsigned payload leaves cannot hold -1: not demanded)
                            flat = [c["eps"][k], row["ts_start"], c["ts_end"][k], c["delay"][k]] + ([c["state_n"][k]] if "state_n" in c else []) + (list(c["out_tag"][k]) if "out_tag" in c else [])
                            if any(x != -1 for x in flat):
                                errs.append(("compiled:unexecuted-row-not-minus-one", (n, k, flat[:8])))
                        continue
                    if not executed:
                        errs.append(("compiled:executed-step-not-recorded", (n, k)))
                        continue
                    _row_vs_trace(n, k, row, t, errs, "compiled")
                    if "state_h" in c and k + 1 < K and c["seq"][k + 1] >= 0 and int(c["state_h"][k + 1]) & 0xFFFFFFFF != t["out_h"]:
                        errs.append(("compiled:state-before-next-step!=state-returned", (n, k)))
            seen = set()
            for sig, det in errs:
                if sig not in seen:
                    seen.add(sig)
                    out["violations"].append((sig, dict(combo=combo, mode=mode, eps=e, detail=det), rp))
    out["violations"] = out["violations"][:12]
    return out



def _guard(fn, sig_prefix):
    def wrapped(arg):
        try:
            return fn(arg)
        except Exception as e:  # noqa
            import traceback as tb

            src = arg.get("src", {})
            name = src.get("name", arg.get("name", "?"))
            rp = {k: v for k, v in arg.items() if k in ("src", "modes", "prunes", "mode", "prune", "combos", "eps", "dynamic")}
            if "modes" in rp and "mode" not in rp:
                rp["mode"], rp["prune"] = list(rp["modes"])[0], list(rp.get("prunes", (True,)))[0]
            return dict(name=name, instances=0, states=0, transitions=0, traces=0, skipped=None, rejected=0, stats=[], paths=0,
                        violations=[(f"{sig_prefix}:raised:{type(e).__name__}", dict(exc=repr(e)[:400], tb=tb.format_exc()[-1200:]), rp)])

    wrapped.__name__ = fn.__name__
    return wrapped


c01_task = _guard(c01_task, "replay")
c06c_task = _guard(c06c_task, "compiled")
c08_task = _guard(c08_task, "buffers")
c13_compiled_task = _guard(c13_compiled_task, "compiled")
c07_task = _guard(c07_task, "schedule")
