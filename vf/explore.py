"""Deviation-bounded exhaustive exploration of schedules (DESIGN 3.2), sharded over worker processes.

explore(job, bound, judge=(module, function)) enumerates *all* schedules that deviate at most `bound` times from the
job's base policy (choice 0 everywhere), runs each to the horizon on the real code and judges it.
judge(job, res) -> dict(violations=[(signature, detail)], outcome=<hashable>)
"""
import importlib
import json
import time

from vf.common import HarnessError


def _judge(judge, job, res):
    mod = importlib.import_module(judge[0])
    return getattr(mod, judge[1])(job, res)


def _run(job, prefix):
    from vf.asyncx import run_job

    j = dict(job)
    j["prefix"] = list(prefix)
    return run_job(j)


def _empty_stats():
    return dict(execs=0, points=0, steps=0, violations=[], outcomes={}, sigs=set(), deadlocks=0, cap_hit=False, max_points=0, wall=0.0)


def _account(stats, job, prefix, res, verdict):
    stats["execs"] += 1
    stats["points"] += res["n_points"]
    stats["max_points"] = max(stats["max_points"], res["n_points"])
    stats["steps"] += res["n_steps"]
    stats["sigs"].add(res["sig"])
    stats["outcomes"][verdict["outcome"]] = stats["outcomes"].get(verdict["outcome"], 0) + 1
    if res["deadlock"] is not None:
        stats["deadlocks"] += 1
    for sig, detail in verdict["violations"]:
        if len(stats["violations"]) < 40:
            rj = {k: v for k, v in job.items()}
            rj["prefix"] = list(prefix)
            stats["violations"].append(dict(signature=sig, detail=detail, job=rj))


def subtree(arg):
    """Worker: explore the subtrees rooted at the given prefixes with `budget` further deviations each."""
    job, prefixes, budget, judge, cap = arg["job"], arg["prefixes"], arg["budget"], arg["judge"], arg.get("cap", 10**9)
    stats = _empty_stats()
    t0 = time.time()

    def rec(prefix, budget):
        if stats["execs"] >= cap:
            stats["cap_hit"] = True
            return
        res = _run(job, prefix)
        verdict = _judge(judge, job, res)
        _account(stats, job, prefix, res, verdict)
        if budget <= 0:
            return
        ch = [c for _, c in res["points"]]
        for i in range(len(prefix), len(res["points"])):
            for alt in range(1, res["points"][i][0]):
                rec(ch[:i] + [alt], budget - 1)

    for p in prefixes:
        rec(list(p), budget)
    stats["wall"] = time.time() - t0
    stats["sigs"] = list(stats["sigs"])
    return stats


def merge(a, b):
    a["execs"] += b["execs"]
    a["points"] += b["points"]
    a["steps"] += b["steps"]
    a["deadlocks"] += b["deadlocks"]
    a["max_points"] = max(a["max_points"], b["max_points"])
    a["cap_hit"] = a["cap_hit"] or b["cap_hit"]
    a["sigs"] = set(a["sigs"]) | set(b["sigs"])
    for k, v in b["outcomes"].items():
        a["outcomes"][k] = a["outcomes"].get(k, 0) + v
    a["violations"].extend(b["violations"])
    a["wall"] += b.get("wall", 0.0)
    return a


def explore(pool, job, bound, judge, cap_per_task=10**9, chunk=6):
    """Returns merged stats. The base run is executed twice first (replay-twice gate, DESIGN 3.7)."""
    base1 = _run(job, [])
    base2 = _run(job, [])
    k1 = json.dumps([base1["points"], base1["episodes"], base1["finished"]], sort_keys=True, default=repr)
    k2 = json.dumps([base2["points"], base2["episodes"], base2["finished"]], sort_keys=True, default=repr)
    if k1 != k2:
        raise HarnessError("replay-twice gate failed: the base schedule is not reproducible (uncaptured nondeterminism)")
    stats = _empty_stats()
    verdict = _judge(judge, job, base1)
    _account(stats, job, [], base1, verdict)
    if bound <= 0:
        stats["sigs"] = set(stats["sigs"])
        return stats
    ch = [c for _, c in base1["points"]]
    children = [ch[:i] + [alt] for i in range(len(base1["points"])) for alt in range(1, base1["points"][i][0])]
    if bound == 1:
        tasks = [dict(job=job, prefixes=children[i : i + chunk], budget=0, judge=judge, cap=cap_per_task) for i in range(0, len(children), chunk)]
    else:
        tasks = [dict(job=job, prefixes=[c], budget=bound - 1, judge=judge, cap=cap_per_task) for c in children]
    for st in pool.imap("vf.explore", "subtree", tasks):
        merge(stats, st)
    return stats


def base_task(arg):
    """Worker: base schedule twice (replay gate) + judged; returns stats and the list of depth-1 children."""
    job, judge, bound = arg["job"], arg["judge"], arg["bound"]
    t0 = time.time()
    base1 = _run(job, [])
    base2 = _run(job, [])
    k1 = json.dumps([base1["points"], base1["episodes"], base1["finished"]], sort_keys=True, default=repr)
    k2 = json.dumps([base2["points"], base2["episodes"], base2["finished"]], sort_keys=True, default=repr)
    if k1 != k2:
        raise HarnessError(f"replay-twice gate failed for job {arg.get('key')}: base schedule not reproducible")
    stats = _empty_stats()
    verdict = _judge(judge, job, base1)
    _account(stats, job, [], base1, verdict)
    children = []
    if bound > 0:
        ch = [c for _, c in base1["points"]]
        children = [ch[:i] + [alt] for i in range(len(base1["points"])) for alt in range(1, base1["points"][i][0])]
    stats["sigs"] = list(stats["sigs"])
    stats["wall"] = time.time() - t0
    return dict(key=arg["key"], stats=stats, children=children)


def sub_task(arg):
    st = subtree(arg)
    return dict(key=arg["key"], stats=st)


def explore_many(pool, jobs, bound, judge, chunk=8, cap_per_task=10**9, progress=None):
    """jobs: {key: job}. Exhaustive exploration of every job up to `bound` deviations. Returns {key: stats}."""
    out = {}
    children = {}
    for r in pool.imap("vf.explore", "base_task", [dict(key=k, job=j, judge=judge, bound=bound) for k, j in jobs.items()]):
        st = r["stats"]
        st["sigs"] = set(st["sigs"])
        out[r["key"]] = st
        children[r["key"]] = r["children"]
    if bound > 0:
        tasks = []
        for k, ch in children.items():
            if bound == 1:
                for i in range(0, len(ch), chunk):
                    tasks.append(dict(key=k, job=jobs[k], prefixes=ch[i : i + chunk], budget=0, judge=judge, cap=cap_per_task))
            else:
                for c in ch:
                    tasks.append(dict(key=k, job=jobs[k], prefixes=[c], budget=bound - 1, judge=judge, cap=cap_per_task))
        # longest first is unknown; interleave keys so that all workers stay busy
        n = 0
        for r in pool.imap("vf.explore", "sub_task", tasks):
            merge(out[r["key"]], r["stats"])
            n += 1
            if progress and n % 50 == 0:
                progress(n, len(tasks))
    return out


def jobs_task(arg):
    """Worker: run each job once under its base schedule (d = 0) and judge it."""
    stats = _empty_stats()
    t0 = time.time()
    per = []
    for key, job in arg["jobs"]:
        res = _run(job, [])
        verdict = _judge(arg["judge"], job, res)
        nv = len(stats["violations"])
        _account(stats, job, [], res, verdict)
        for v in stats["violations"][nv:]:
            v["key"] = key
        per.append((key, res["finished"], res["n_steps"]))
    stats["sigs"] = list(stats["sigs"])
    stats["wall"] = time.time() - t0
    stats["per"] = per
    return stats


def run_family(pool, jobs, judge, chunk=12):
    """jobs: list of (key, job). Every member is executed once (base schedule). Returns merged stats."""
    tasks = [dict(jobs=jobs[i : i + chunk], judge=judge) for i in range(0, len(jobs), chunk)]
    stats = _empty_stats()
    stats["per"] = []
    for st in pool.imap("vf.explore", "jobs_task", tasks):
        merge(stats, st)
        stats["per"].extend(st["per"])
    return stats


def stateful_task(arg):
    """Stateful (unbounded-deviation) exploration of one job: depth-first over ALL choice sequences, pruned by the
    abstract state recorded at every decision point (two prefixes reaching the same abstract state are explored once).
    Sound for violations (every reported one is a real execution); complete up to the precision of the abstraction."""
    job, judge, cap = dict(arg["job"]), arg["judge"], arg.get("cap", 20000)
    job["digest"] = True
    stats = _empty_stats()
    stats.update(abstract_states=0, pruned=0)
    visited = set()
    t0 = time.time()
    import sys

    sys.setrecursionlimit(20000)

    def rec(prefix):
        if stats["execs"] >= cap:
            stats["cap_hit"] = True
            return
        res = _run(job, prefix)
        verdict = _judge(judge, job, res)
        _account(stats, job, prefix, res, verdict)
        ch = [c for _, c in res["points"]]
        dg = res["digests"]
        for i in range(len(prefix), len(res["points"])):
            if dg[i] in visited:
                stats["pruned"] += 1
                break
            visited.add(dg[i])
            for alt in range(1, res["points"][i][0]):
                rec(ch[:i] + [alt])

    rec(list(arg.get("prefix", [])))
    stats["abstract_states"] = len(visited)
    stats["wall"] = time.time() - t0
    stats["sigs"] = list(stats["sigs"])
    return dict(key=arg["key"], stats=stats)


def explore_stateful(pool, jobs, judge, cap=20000):
    out = {}
    for r in pool.imap("vf.explore", "stateful_task", [dict(key=k, job=j, judge=judge, cap=cap) for k, j in jobs.items()]):
        st = r["stats"]
        st["sigs"] = set(st["sigs"])
        out[r["key"]] = st
    return out


def prefix_task(arg):
    """Worker: execute one choice prefix (then default choices) with abstract-state digests; judged."""
    job = dict(arg["job"])
    job["digest"] = True
    res = _run(job, arg["prefix"])
    verdict = _judge(arg["judge"], job, res)
    return dict(key=arg["key"], prefix=arg["prefix"], points=res["points"], digests=res["digests"], verdict=verdict, n_steps=res["n_steps"], sig=res["sig"],
                deadlock=res["deadlock"] is not None, n_points=res["n_points"])


def explore_stateful_bfs(pool, jobs, judge, cap=30000):
    """Level-synchronous, pruned exploration of ALL schedules of every job (no deviation bound): an alternative is expanded
    only at decision points whose abstract state (thread program counters + shared lifecycle state) has not been seen.
    Returns {key: stats}; stats['cap_hit'] when the execution cap stopped the search."""
    out = {k: dict(_empty_stats(), abstract_states=0, pruned=0, levels=0) for k in jobs}
    visited = {k: set() for k in jobs}
    frontier = [dict(key=k, job=jobs[k], judge=judge, prefix=[]) for k in jobs]
    while frontier:
        nxt = []
        for r in pool.imap("vf.explore", "prefix_task", frontier):
            k = r["key"]
            st = out[k]
            fake = dict(n_points=r["n_points"], n_steps=r["n_steps"], sig=r["sig"], deadlock=({} if r["deadlock"] else None))
            _account(st, jobs[k], r["prefix"], fake, r["verdict"])
            ch = [c for _, c in r["points"]]
            for i in range(len(r["prefix"]), len(r["points"])):
                d = r["digests"][i]
                if d in visited[k]:
                    st["pruned"] += 1
                    break
                visited[k].add(d)
                if st["execs"] + sum(1 for t in nxt if t["key"] == k) < cap:
                    for alt in range(1, r["points"][i][0]):
                        nxt.append(dict(key=k, job=jobs[k], judge=judge, prefix=ch[:i] + [alt]))
                else:
                    st["cap_hit"] = True
        for k in jobs:
            out[k]["levels"] += 1 if any(t["key"] == k for t in nxt) else 0
        frontier = nxt
    for k in jobs:
        out[k]["abstract_states"] = len(visited[k])
    return out
