"""Shared pieces of the E1-based checks (C02-C06): family slicing, reporting, replay."""
import collections

from vf import harness as H
from vf.common import seed

EPISODE = [["reset"]] + [["step"]] * 5 + [["stop"]]


def family_slice(tier, quick_mod=24, only=None, n_dev=1):
    """(members, family_size). quick: every nominal member + the deviations with index == seed (mod quick_mod)."""
    fam = list(H.fasync_family(n_dev))
    if only is not None:
        fam = [x for x in fam if only(x[0], x[1])]
    if tier == "thorough":
        return fam, len(fam)
    sd = seed()
    sel = [x for i, x in enumerate(fam) if x[0].endswith("|nominal") or (i + sd) % quick_mod == 0]
    return sel, len(fam)


def report(rep, name, out, bound, judge, family=False):
    """out: {key: stats} (explore_many) or one merged stats dict (run_family). Registers coverage + violations."""
    stats_list = [(None, out)] if family else list(out.items())
    tot = collections.Counter()
    viol = []
    for key, st in stats_list:
        tot["execs"] += st["execs"]
        tot["points"] += st["points"]
        tot["steps"] += st["steps"]
        tot["unfinished"] += st["deadlocks"]
        tot["scheds"] += len(st["sigs"])
        tot["outcomes"] += len(st["outcomes"])
        tot["cap_hit"] += int(st["cap_hit"])
        for v in st["violations"]:
            viol.append((key if key is not None else v.get("key"), v))
    rep.add(states=tot["points"] + tot["execs"], transitions=tot["steps"], traces=tot["execs"])
    rep.section(
        name, jobs=len(stats_list) if not family else tot["execs"], executions=tot["execs"], decision_points=tot["points"], scheduled_thread_steps=tot["steps"],
        bound_completed=bound, distinct_schedules=tot["scheds"], distinct_outcomes_summed=tot["outcomes"], unfinished_executions=tot["unfinished"], cap_hit=bool(tot["cap_hit"]),
    )
    if tot["cap_hit"]:
        rep.not_exhaustive(f"{name}: execution cap hit")
    seen = collections.Counter()
    for key, v in viol:
        cls = v["signature"]
        seen[cls] += 1
        if seen[cls] <= 3:
            k = key if isinstance(key, str) else ":".join(map(str, key))
            rep.violation(v["signature"] + "@" + k, dict(job=k, detail=v["detail"]), replay=dict(kind="e1", judge=list(judge), job=v["job"]))
    return tot


def replay_e1(body):
    import importlib

    from vf.asyncx import run_job

    r = body["replay"]
    job = r["job"]
    res = run_job(job)
    mod, fn = r["judge"]
    v = getattr(importlib.import_module(mod), fn)(job, res)
    print("replayed schedule: finished =", res["finished"], "violations =", [s for s, _ in v["violations"]])
    for s, d in v["violations"][:5]:
        print("  ", s, str(d)[:500])
    if res["deadlock"]:
        print("blocked threads:", res["deadlock"]["blocked"])
    return not v["violations"]
