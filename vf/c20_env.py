"""C20: the probe environment (tiny two-node rex graph) and the PPO configuration used to obtain a *real* PPOResult.

world (8 Hz) --x--> agent (8 Hz, supervisor) --action--> world (skip).  The world state x (3 floats) follows
x <- 0.5 x + B a + c, the observation is the last x the agent received, scaled per dimension so that the three
observation dimensions have visibly different mean / variance (a normalisation that mixes up dimensions, or that
skips mean/variance, then shows).  The action space is asymmetric and different per dimension (low/high swaps show).

`ProbeEnv.step` additionally writes (observation the action was computed from, action actually applied to the
environment) into `info`; together with `ProbeConfig.EVAL_METRICS_JAX_CB` (the documented extension point of
rex.ppo.Config) this lets the final deterministic evaluation that `train` itself performs - trained network,
training-time observation normalisation, training-time action squashing, exactly as wired inside `train` - come
out of `train` as (raw observation, applied action) pairs.  Those pairs are the most literal form of the oracle.
"""
import functools

OBS_DIM = 3
ACT_DIM = 2
ACT_LOW = (-2.0, 0.5)
ACT_HIGH = (1.0, 3.0)
OBS_SCALE = (1.0, 4.0, 0.25)
OBS_SHIFT = (0.5, -3.0, 0.0)
EPISODE_LEN = 6

_CACHE = {}


def build():
    """Returns dict(env=..., Config=ProbeConfig, graph=...) (cached per process). rex must be importable."""
    if _CACHE:
        return _CACHE
    import jax
    import jax.numpy as jnp
    from distrax import Deterministic
    from flax import struct

    import rex.ppo as ppo
    import rex.rl as rl
    from rex.artificial import generate_graphs
    from rex.base import Base, GraphState, StepState
    from rex.graph import Graph
    from rex.node import BaseNode

    @struct.dataclass
    class WState(Base):
        x: jax.Array

    @struct.dataclass
    class WOut(Base):
        x: jax.Array

    @struct.dataclass
    class AOut(Base):
        a: jax.Array

    class World(BaseNode):
        def init_state(self, rng=None, graph_state=None):
            rng = jax.random.PRNGKey(0) if rng is None else rng
            return WState(x=jax.random.uniform(rng, (OBS_DIM,), minval=-1.0, maxval=1.0))

        def init_output(self, rng=None, graph_state=None):
            return WOut(x=jnp.zeros((OBS_DIM,), dtype=jnp.float32))

        def step(self, step_state: StepState):
            a = step_state.inputs["agent"][-1].data.a
            x = step_state.state.x
            x = 0.5 * x + jnp.stack([a[0], 0.5 * a[1], a[0] - a[1]]) * 0.25 + jnp.array([0.1, -0.2, 0.05])
            return step_state.replace(state=WState(x=x)), WOut(x=x)

    class Agent(BaseNode):
        def init_output(self, rng=None, graph_state=None):
            return AOut(a=jnp.zeros((ACT_DIM,), dtype=jnp.float32))

        def step(self, step_state: StepState):  # never called in the compiled graph (supervisor), required by the API
            return step_state, AOut(a=jnp.zeros((ACT_DIM,), dtype=jnp.float32))

    world = World(name="world", rate=8, delay_dist=Deterministic(1 / 64), advance=False)
    agent = Agent(name="agent", rate=8, delay_dist=Deterministic(1 / 64), advance=False)
    agent.connect(world, window=1, blocking=False, delay_dist=Deterministic(1 / 64))
    world.connect(agent, window=1, blocking=False, skip=True, delay_dist=Deterministic(1 / 64))
    nodes = {"world": world, "agent": agent}
    cgraphs = generate_graphs(nodes, 2.0, num_episodes=1)
    graph = Graph(nodes=nodes, supervisor=agent, graphs_raw=cgraphs)

    class ProbeEnv(rl.Environment):
        def observation_space(self, graph_state: GraphState):
            return rl.Box(jnp.full((OBS_DIM,), -100.0), jnp.full((OBS_DIM,), 100.0))

        def action_space(self, graph_state: GraphState):
            return rl.Box(jnp.array(ACT_LOW, dtype=jnp.float32), jnp.array(ACT_HIGH, dtype=jnp.float32))

        def get_observation(self, graph_state: GraphState):
            x = graph_state.inputs["agent"]["world"][-1].data.x
            return x * jnp.array(OBS_SCALE, dtype=jnp.float32) + jnp.array(OBS_SHIFT, dtype=jnp.float32)

        def get_output(self, graph_state, action):
            return AOut(a=action)

        def get_truncated(self, graph_state):
            return False

        def get_terminated(self, graph_state):
            return graph_state.seq["agent"] >= EPISODE_LEN

        def get_reward(self, graph_state, action):
            return -jnp.sum(jnp.square(graph_state.state["world"].x))

        def get_info(self, graph_state, action=None):
            z = jnp.zeros((OBS_DIM,), dtype=jnp.float32)
            za = jnp.zeros((ACT_DIM,), dtype=jnp.float32)
            return {"c20_obs": z, "c20_act": za, "c20_valid": jnp.float32(0.0)}

        def step(self, graph_state, action):
            obs_pre = self.get_observation(graph_state)  # what the agent saw when it chose `action`
            gs, obs, reward, terminated, truncated, info = super().step(graph_state, action)
            info = dict(info)
            info.update({"c20_obs": obs_pre, "c20_act": jnp.asarray(action, dtype=jnp.float32), "c20_valid": jnp.float32(1.0)})
            return gs, obs, reward, terminated, truncated, info

    @struct.dataclass
    class ProbeConfig(ppo.Config):
        def EVAL_METRICS_JAX_CB(self, total_steps, diagnostics, eval_transitions=None):
            m = ppo.Config.EVAL_METRICS_JAX_CB(self, total_steps, diagnostics, eval_transitions)
            m["c20/obs"] = eval_transitions.info["c20_obs"]
            m["c20/act"] = eval_transitions.info["c20_act"]
            m["c20/valid"] = eval_transitions.info["c20_valid"]
            m["c20/net_out"] = eval_transitions.action  # the network's pi.mean() (before unsquash)
            return m

    env = ProbeEnv(graph)
    _CACHE.update(env=env, Config=ProbeConfig, graph=graph, ppo=ppo)
    return _CACHE


def make_config(cfg):
    """cfg: dict(depth, width, act, squash, norm, seed) -> ProbeConfig with the smallest useful budget (3 updates)."""
    C = build()["Config"]
    num_envs, num_steps, updates = 2, 8, 3
    return C(
        LR=5e-3,
        NUM_ENVS=num_envs,
        NUM_STEPS=num_steps,
        TOTAL_TIMESTEPS=num_envs * num_steps * updates,
        UPDATE_EPOCHS=2,
        NUM_MINIBATCHES=2,
        GAMMA=0.99,
        GAE_LAMBDA=0.95,
        CLIP_EPS=0.2,
        ENT_COEF=0.01,
        VF_COEF=0.5,
        MAX_GRAD_NORM=0.5,
        NUM_HIDDEN_LAYERS=int(cfg["depth"]),
        NUM_HIDDEN_UNITS=int(cfg["width"]),
        KERNEL_INIT_TYPE="xavier_uniform",
        HIDDEN_ACTIVATION=str(cfg["act"]),
        STATE_INDEPENDENT_STD=True,
        SQUASH=bool(cfg["squash"]),
        ANNEAL_LR=False,
        NORMALIZE_ENV=bool(cfg["norm"]),
        FIXED_INIT=True,
        OFFSET_STEP=False,
        NUM_EVAL_ENVS=2,
        EVAL_FREQ=1,
        VERBOSE=False,
        DEBUG=False,
    )


def train(cfg):
    """Runs the real rex.ppo.train (jitted, as in tests/unit/test_ppo.py). Returns (PPOResult, config)."""
    import jax

    b = build()
    config = make_config(cfg)
    fn = jax.jit(functools.partial(b["ppo"].train, b["env"]))
    res = fn(config, rng=jax.random.PRNGKey(int(cfg["seed"])))
    return res, config
