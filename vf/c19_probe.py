"""C19 probe: a 2-node rex graph (world <-> agent) and an `Environment` whose answers (reward, terminated, truncated)
are functions of the action, so that the explorer chooses them through a small action alphabet.

    world (rate 8)  --window 1-->  agent (supervisor, rate 8)
    agent           --window 1, skip-->  world

world keeps, per episode: n (number of world steps run), last (last action it received), acc (sum of received actions),
u (a value drawn from the rng at init: tells initial states apart) and uid (64 random bits drawn at init, never
observed by the agent: freshness of a "freshly drawn" initial state).

Actions are quantised to halves (`quant`) the moment they enter the environment so that everything downstream is exact
float32 arithmetic on dyadic numbers even when the action passed through tanh/arctanh.
"""
import numpy as onp

RATE = 8
TS_MAX = 1.75  # 14 supervisor steps compiled: more than any explored history needs
DEFAULT_ACT = -64.0  # agent.init_output: what the world sees before the first action arrives
TERM_LO, TRUNC_LO = 6.5, 7.5  # quantised action 7 terminates, 8 truncates

_CLS = {}


def classes():
    if _CLS:
        return _CLS
    import jax
    import jax.numpy as jnp
    from flax import struct

    import rex.rl as rl
    from rex.base import Base
    from rex.node import BaseNode

    @struct.dataclass
    class WState(Base):
        n: jax.Array  # int32
        last: jax.Array  # float32
        acc: jax.Array  # float32
        u: jax.Array  # float32
        uid: jax.Array  # uint32[2]

    @struct.dataclass
    class WOut(Base):
        n: jax.Array
        last: jax.Array
        acc: jax.Array
        u: jax.Array

    @struct.dataclass
    class AOut(Base):
        a: jax.Array  # float32[adim]

    @struct.dataclass
    class Empty(Base):
        pass

    class World(BaseNode):
        def init_state(self, rng=None, graph_state=None):
            rng = jax.random.PRNGKey(0) if rng is None else rng
            bits = jax.random.bits(rng, (3,), dtype=jnp.uint32)
            u = (bits[0] >> 22).astype(jnp.float32) / 16.0  # 10 bits -> [0, 64) on a 1/16 lattice
            return WState(n=jnp.int32(0), last=jnp.float32(DEFAULT_ACT), acc=jnp.float32(0.0), u=u, uid=bits[1:])

        def init_output(self, rng=None, graph_state=None):
            return WOut(n=jnp.int32(-1), last=jnp.float32(DEFAULT_ACT), acc=jnp.float32(0.0), u=jnp.float32(-1.0))

        def step(self, ss):
            a = ss.inputs["agent"][-1].data.a[0]
            seen = ss.inputs["agent"].seq[-1] >= 0  # a real action (not the default output) has arrived
            st = ss.state
            new = st.replace(n=st.n + 1, last=jnp.where(seen, a, st.last), acc=st.acc + jnp.where(seen, a, 0.0))
            return ss.replace(state=new), WOut(n=new.n, last=new.last, acc=new.acc, u=new.u)

    class Agent(BaseNode):
        def __init__(self, *args, adim=1, **kw):
            super().__init__(*args, **kw)
            self.adim = adim

        def init_output(self, rng=None, graph_state=None):
            return AOut(a=jnp.full((self.adim,), DEFAULT_ACT, jnp.float32))

        def step(self, ss):  # never used: the environment overrides the supervisor
            return ss, self.init_output()

    def quant(a):
        return jnp.round(jnp.asarray(a, jnp.float32) * 2.0) / 2.0

    class ProbeEnv(rl.Environment):
        def __init__(self, graph, low=(-9.0,), high=(8.0,), **kw):
            super().__init__(graph, **kw)
            self.low = jnp.asarray(low, jnp.float32)
            self.high = jnp.asarray(high, jnp.float32)

        def observation_space(self, graph_state):
            return rl.Box(jnp.full((5,), -jnp.inf), jnp.full((5,), jnp.inf))

        def action_space(self, graph_state):
            return rl.Box(self.low, self.high)

        def get_observation(self, gs):
            w = gs.inputs["agent"]["world"][-1].data  # what the agent sees: the world's latest message
            seq = gs.seq["agent"]
            return jnp.stack([w.last, w.n.astype(jnp.float32), w.acc, w.u, jnp.asarray(seq).astype(jnp.float32)])

        def get_output(self, gs, action):
            return AOut(a=quant(action))

        def get_reward(self, gs, action):
            return quant(action)[0]

        def get_terminated(self, gs):
            a = self._last_action(gs)
            return jnp.logical_and(a >= TERM_LO, a < TRUNC_LO)

        def get_truncated(self, gs):
            return self._last_action(gs) >= TRUNC_LO

        def _last_action(self, gs):
            # after graph.step the action just taken is the newest entry of the supervisor's output buffer, and the
            # world has already consumed it; read it where the world stored it (state), so that the flags are functions
            # of the stepped graph state as in a real environment.
            return gs.state["world"].last

        def get_info(self, gs, action=None):
            # "act": the action exactly as the environment received it (what an action wrapper handed down)
            act = jnp.full(self.low.shape, jnp.nan, jnp.float32) if action is None else jnp.asarray(action, jnp.float32)
            return {"w_n": gs.state["world"].n, "w_acc": gs.state["world"].acc, "act": act}

    _CLS.update(WState=WState, WOut=WOut, AOut=AOut, World=World, Agent=Agent, ProbeEnv=ProbeEnv, quant=quant)
    return _CLS


_GRAPH = {}


def make_graph(adim=1):
    """The compiled rex graph (cached per process)."""
    if adim in _GRAPH:
        return _GRAPH[adim]
    from distrax import Deterministic

    from rex.artificial import generate_graphs
    from rex.graph import Graph

    C = classes()
    world = C["World"](name="world", rate=RATE, delay_dist=Deterministic(1 / 64), delay=1 / 64)
    agent = C["Agent"](name="agent", rate=RATE, delay_dist=Deterministic(1 / 64), delay=1 / 64, adim=adim)
    agent.connect(world, window=1, blocking=False, delay_dist=Deterministic(1 / 64), delay=1 / 64)
    world.connect(agent, window=1, blocking=False, skip=True, delay_dist=Deterministic(1 / 64), delay=1 / 64)
    nodes = {"world": world, "agent": agent}
    cg = generate_graphs(nodes, TS_MAX, num_episodes=2)
    g = Graph(nodes=nodes, supervisor=agent, graphs_raw=cg, progress_bar=False)
    _GRAPH[adim] = g
    return g


def project_gs(gs):
    """Abstract projection of a (possibly batched) graph state: everything the reference model predicts."""
    w = gs.state["world"]
    inp = gs.inputs["agent"]["world"]
    return dict(
        step=gs.step, eps=gs.eps, seq_agent=gs.seq["agent"], seq_world=gs.seq["world"],
        w_n=w.n, w_last=w.last, w_acc=w.acc, w_u=w.u, w_uid=w.uid,
        in_n=inp.data.n[..., -1], in_last=inp.data.last[..., -1], in_acc=inp.data.acc[..., -1], in_u=inp.data.u[..., -1], in_seq=inp.seq[..., -1],
    )


def to_np(tree):
    import jax

    return jax.tree_util.tree_map(lambda x: onp.asarray(x), tree)


# ------------------------------------------------------------------------------------------------
# wrapper stacks on the real code
# ------------------------------------------------------------------------------------------------
def build_env(spec, bounds=None):
    """spec: {"env": {...ProbeEnv options...}, "layers": ["auto:fixed", "log", "squash:1", "vec:2", "nobs", "nrew:0.5"]}
    (layers listed from the innermost to the outermost wrapper)."""
    import rex.rl as rl

    C = classes()
    e = spec.get("env", {})
    kw = dict(only_init=bool(e.get("only_init", False)), starting_eps=int(e.get("starting_eps", 0)))
    if e.get("params_empty", False):
        kw["params"] = {}
    low, high = bounds if bounds is not None else (tuple(e.get("low", (-9.0,))), tuple(e.get("high", (8.0,))))  # bounds may be traced
    env = C["ProbeEnv"](make_graph(), low=low, high=high, **kw)
    base_env = env
    for layer in spec.get("layers", []):
        kind, _, arg = layer.partition(":")
        if kind == "auto":
            env = rl.AutoResetWrapper(env, fixed_init=(arg == "fixed"))
        elif kind == "log":
            env = rl.LogWrapper(env)
        elif kind == "squash":
            env = rl.SquashActionWrapper(env, squash=(arg == "1"))
        elif kind == "clip":
            env = rl.ClipActionWrapper(env)
        elif kind == "vec":
            env = rl.VecEnvWrapper(env)
        elif kind == "nobs":  # "nobs" or "nobs:<clip>"
            env = rl.NormalizeVecObservationWrapper(env, **(dict(clip_obs=float(arg)) if arg else {}))
        elif kind == "nrew":  # "nrew:<gamma>" or "nrew:<gamma>:<clip>"
            g, _, c = arg.partition(":")
            env = rl.NormalizeVecReward(env, gamma=float(g), **(dict(clip_reward=float(c)) if c else {}))
        else:
            raise ValueError(layer)
    return env, base_env


def nenv_of(spec):
    for layer in spec.get("layers", []):
        if layer.startswith("vec:"):
            return int(layer.split(":")[1])
    return 0


_DRAW_FIELDS = ("u", "uid")  # leaves that carry the random draw of an initial state
_GS_FIELDS = ("step", "eps", "seq", "ts", "params", "state", "inputs", "timings_eps", "buffer")  # all but rng and aux


def _eq_gs(gs, ref, nenv, skip_draw):
    """per environment: do all leaves of gs (except rng, aux and optionally the drawn fields) equal those of ref?"""
    import jax
    import jax.numpy as jnp

    flags = []
    for f in _GS_FIELDS:
        la = jax.tree_util.tree_flatten_with_path(getattr(gs, f))[0]
        lb = jax.tree_util.tree_flatten_with_path(getattr(ref, f))[0]
        assert len(la) == len(lb), f
        for (pa, a), (pb, b) in zip(la, lb):
            last = pa[-1] if pa else None
            name = getattr(last, "name", getattr(last, "key", None))
            if skip_draw and name in _DRAW_FIELDS:
                continue
            e = jnp.asarray(a) == jnp.asarray(b)
            flags.append(jnp.all(e.reshape((nenv, -1)), axis=1) if nenv else jnp.all(e))
    return jnp.all(jnp.stack(flags), axis=0)


def _tree_eq(a, b):
    import jax
    import jax.numpy as jnp

    la, lb = jax.tree_util.tree_leaves(a), jax.tree_util.tree_leaves(b)
    assert len(la) == len(lb)
    return jnp.all(jnp.stack([jnp.all(jnp.asarray(x) == jnp.asarray(y)) for x, y in zip(la, lb)]))


def _observe(gs, obs, info, gs0, nenv, step=None):
    out = dict(obs=obs, info=dict(info), proj=project_gs(gs))
    if step is not None:
        out["reward"], out["terminated"], out["truncated"] = step
    aux = gs.aux
    if "log" in aux:
        ls = aux["log"]
        out["log"] = dict(episode_returns=ls.episode_returns, episode_lengths=ls.episode_lengths, returned_episode_returns=ls.returned_episode_returns,
                          returned_episode_lengths=ls.returned_episode_lengths, timestep=ls.timestep)
    if "norm_obs" in aux:
        ns = aux["norm_obs"]
        out["norm_obs"] = dict(mean=ns.mean, var=ns.var, count=ns.count)
    if "norm_reward" in aux:
        ns = aux["norm_reward"]
        out["norm_reward"] = dict(mean=ns.mean, var=ns.var, count=ns.count, return_val=ns.return_val)
    if "act_scaling" in aux:
        out["act_scaling"] = dict(low=aux["act_scaling"].low, high=aux["act_scaling"].high)
    if gs0 is not None:
        out["eq0_strict"] = _eq_gs(gs, gs0, nenv, False)
        out["eq0_mod_draw"] = _eq_gs(gs, gs0, nenv, True)
    return out


class Real:
    """The real wrapper stack: reset once, then `step_chunk` = jit(vmap(step)) over a chunk of BFS nodes."""

    def __init__(self, spec):
        import jax
        import jax.numpy as jnp

        self.spec = spec
        self.env, self.base = build_env(spec)
        self.nenv = nenv_of(spec)
        env, base, nenv = self.env, self.base, self.nenv
        direct = bool(spec.get("direct", False))
        graph = base.graph
        sup = graph.supervisor.name

        def _reset(rng):
            gs, obs, info = env.reset(rng)
            out = _observe(gs, obs, info, None, nenv)
            if direct:  # Environment.reset == graph.init (+ graph.reset unless only_init) through the public graph API
                if base.only_init:
                    gd = graph.init(rng, params=base.params, starting_step=1, starting_eps=base.starting_eps, randomize_eps=False, order=None)
                else:
                    gd = graph.init(rng, params=base.params, starting_step=0, starting_eps=base.starting_eps, randomize_eps=False, order=None)
                    gd, _ = graph.reset(gd)
                out["eq_direct"] = jnp.logical_and(_tree_eq(gs, gd), _tree_eq(obs, base.get_observation(gd)))
            return gs, out

        def _step(gs, a, gs0):
            gs2, obs, reward, te, tr, info = env.step(gs, a)
            out = _observe(gs2, obs, info, gs0, nenv, step=(reward, te, tr))
            if direct:  # Environment.step == graph.step(gs, ss, output=get_output(a)) through the public graph API
                o = base.get_output(gs, a)
                gd, _ = graph.step(gs, gs.step_state[sup], o)
                same = _tree_eq(gs2, gd)
                for x, y in ((obs, base.get_observation(gd)), (reward, base.get_reward(gd, a)), (te, base.get_terminated(gd)), (tr, base.get_truncated(gd))):
                    same = jnp.logical_and(same, _tree_eq(x, y))
                # the supervisor's output for this step is what get_output made of the action
                out["eq_direct"] = same
                out["sup_out"] = gd.inputs["world"]["agent"][-1].data.a
            return gs2, out

        self._reset = jax.jit(_reset)
        self._step = jax.jit(jax.vmap(_step, in_axes=(0, 0, None)))

    def reset(self, key):
        import jax

        rng = jax.random.PRNGKey(key)
        if self.nenv:
            rng = jax.random.split(rng, self.nenv)
        gs, out = self._reset(rng)
        self.gs0 = to_np(gs)
        return self.gs0, to_np(out)

    def step_chunk(self, gs_batch, act_batch):
        gs2, out = self._step(gs_batch, act_batch, self.gs0)
        return to_np(gs2), to_np(out)
