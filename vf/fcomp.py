"""F-comp: the finite family of compiled-runtime instances (DESIGN 4.1).

A *source* is a picklable descriptor of a set of raw computation graphs plus the node graph they belong to:
  {"kind": "async", "name":..., "spec":..., "user":[...], "policy":...}   recorded by the threaded runtime (E1 base schedule)
  {"kind": "gen",   "name":..., "spec":..., "ts_max":..., "episodes":..., "seed":...}  rex.artificial.generate_graphs
  {"kind": "raw",   "name":..., "spec":..., "episodes":[plain episode, ...]}  hand-enumerated by the timeline generator below
materialize(source) -> (spec, graphs_raw (rex.base.Graph), aux)
"""
import copy
import itertools

import numpy as onp

from vf import harness as H

EP5 = [["reset"]] + [["step"]] * 5 + [["stop"]]
EP3 = [["reset"]] + [["step"]] * 3 + [["stop"]]
TWO = EP5 + EP3
THREE = EP3 + EP5 + [["reset"], ["step"], ["step"], ["stop"]]


def async_sources(tier, seed=0):
    out = []
    core = [
        ("H1", H.H1((1, 6), (1, 1, 3))), ("H2.L", H.H2("LATEST", (1, 6), (1, 1, 3))), ("H2.B", H.H2("BUFFER", (1, 6), (1, 1, 3))),
        ("H3", H.H3((1, 6), (1, 1, 3))), ("H4", H.H4((1, 6), (1, 1, 3))), ("H5", H.H5((1, 3), (1, 1, 3))),
        ("H6", H.H6()), ("H6b", H.H6b()), ("H7", H.H7()), ("H8", H.H8()), ("L3", H.L3()),
    ]
    for n, s in core:
        # (a sink is only scheduled by a fair policy: nothing the supervisor waits for depends on it)
        out.append(dict(kind="async", name=f"async.{n}.2eps", spec=s, user=TWO, policy="rr" if n == "L3" else "prio"))
    out.append(dict(kind="async", name="async.H4.3eps.rr", spec=H.H4((1, 6), (1, 1, 3)), user=THREE, policy="rr"))
    out.append(dict(kind="async", name="async.H1.1eps.rev", spec=H.H1((1, 6)), user=EP5, policy="rev"))
    fam = list(H.fasync_family(1))
    step = 600 if tier == "quick" else 150
    for i, (n, s) in enumerate(fam):
        if (i + seed) % step == 0:
            out.append(dict(kind="async", name=f"async.{n}", spec=s, user=TWO if i % 2 else EP5, policy=("prio", "rr", "rev")[i % 3]))
    return out


def _static(spec):
    """variant of a spec whose delays are StaticDist(Normal(mu, 0)) (generate_graphs needs an rng-carrying distribution)"""
    s = copy.deepcopy(spec)
    for nd in s["nodes"].values():
        nd["comp"] = {"dist": ["normal", nd["comp"]["nominal"] / 64.0, 0.0], "nominal": nd["comp"]["nominal"]}
    for e in s["edges"]:
        e["comm"] = {"dist": ["normal", e["comm"]["nominal"] / 64.0, 0.0], "nominal": e["comm"]["nominal"]}
    return s


def gen_sources(tier, seed=0):
    out = []
    combos = []
    for (ra, rb) in [(16, 8), (8, 16), (16, 16), (32, 8)]:
        for w in (1, 2, 3):
            for sk in (False, True):
                combos.append((ra, rb, w, sk))
    for i, (ra, rb, w, sk) in enumerate(combos):
        if tier == "quick" and (i + seed) % 3 != 0:
            continue
        s = H.spec({"a": H.node(ra, 1), "b": H.node(rb, 2 if rb <= 8 else 1)}, [H.edge("a", "b", window=w, skip=False, comm=1), H.edge("b", "a", skip=True, window=1 + (w % 2), comm=1)] if sk else [H.edge("a", "b", window=w, comm=1)], "b")
        out.append(dict(kind="gen", name=f"gen.2n.{ra}-{rb}.w{w}{'.cyc' if sk else ''}", spec=_static(s), ts_max=0.75, episodes=2, seed=i))
    # trainable delays: the window is extended by ceil(rate_of_the_producer * (max - min))
    for (ra, rb) in [(32, 8), (8, 32), (16, 16)]:
        for w in (1, 2):
            st = _static(H.spec({"a": H.node(ra, 1), "b": H.node(rb, 1)}, [H.edge("a", "b", window=w, comm=1)], "b"))
            st["edges"][0]["comm"] = {"trainable": [2, 0, 6], "nominal": 0}
            out.append(dict(kind="gen", name=f"gen.trainable.{ra}-{rb}.w{w}", spec=st, ts_max=0.75, episodes=2, seed=ra + w))
    s3 = H.spec({"a": H.node(16, 1), "c": H.node(8, 1), "b": H.node(8, 2)}, [H.edge("a", "b", window=2, comm=1), H.edge("c", "b", window=1, comm=2), H.edge("b", "c", skip=True, comm=1)], "b")
    out.append(dict(kind="gen", name="gen.3n.fan.cyc", spec=_static(s3), ts_max=0.8125, episodes=2, seed=7))
    sn = copy.deepcopy(_static(s3))
    sn["nodes"]["a"]["comp"]["dist"] = ["normal", 1 / 64.0, 0.01]
    sn["edges"][0]["comm"]["dist"] = ["normal", 1 / 64.0, 0.02]
    out.append(dict(kind="gen", name="gen.3n.fan.cyc.normal", spec=sn, ts_max=0.8, episodes=3, seed=seed))
    return out


# ---- F-raw: independent tiny timeline generator (integer times) ----------------------------------------------
def _timeline(kinds, conns, n_steps):
    """kinds: {name: (period, offset, duration)}; conns: [(o, n, delays(list, cycled), skip)]; n_steps: {name: count}."""
    V = {k: [(i, float(off + i * per), float(off + i * per + dur)) for i in range(n_steps[k])] for k, (per, off, dur) in kinds.items()}
    E = {}
    for (o, n, delays, skip) in conns:
        lst, prev = [], 0.0
        for (i, a, b) in V[o]:
            r = max(b + delays[i % len(delays)], prev)  # FIFO
            prev = r
            tgt = next((j for (j, s, _) in V[n] if (s > r if skip else s >= r)), -1)
            lst.append((i, tgt, r))
        E[(o, n)] = lst
    return dict(vertices=V, edges=E)


def raw_sources(tier, seed=0):
    out = []
    idx = 0
    for pa, pb in [(2, 3), (3, 2), (2, 5), (4, 4)]:
        for delays in [(0,), (1,), (0, 3), (6,), (0, 0, 5)]:
            for w in (1, 2, 3):
                idx += 1
                if tier == "quick" and (idx + seed) % 4 != 0:
                    continue
                eps = []
                for (na, nb) in [(9, 6), (6, 4)]:  # ragged two-episode stack
                    eps.append(_timeline({"a": (pa, 0, 1), "b": (pb, 1, 1)}, [("a", "b", delays, False)], {"a": na, "b": nb}))
                s = H.spec({"a": H.node(16, 1), "b": H.node(8, 1)}, [H.edge("a", "b", window=w)], "b")
                out.append(dict(kind="raw", name=f"raw.ab.p{pa}-{pb}.d{'_'.join(map(str, delays))}.w{w}", spec=s, episodes=eps))
    # chain a -> b -> c and feedback c ~> a (skip), supervisor c; never-received messages at the tail
    for w1, w2 in [(1, 1), (2, 1), (1, 3), (3, 2)]:
        eps = []
        for (na, nb, nc) in [(8, 8, 4), (6, 5, 3), (4, 4, 2)]:
            eps.append(_timeline({"a": (2, 0, 1), "b": (2, 1, 1), "c": (4, 3, 2)}, [("a", "b", (0, 1), False), ("b", "c", (0,), False), ("c", "a", (1,), True)], {"a": na, "b": nb, "c": nc}))
        s = H.spec({"a": H.node(16, 1), "b": H.node(16, 1), "c": H.node(8, 2)}, [H.edge("a", "b", window=w1), H.edge("b", "c", window=w2), H.edge("c", "a", skip=True)], "c")
        out.append(dict(kind="raw", name=f"raw.abc.w{w1}-{w2}", spec=s, episodes=eps))
    # fan-out: one producer, two readers with different windows, both visit orders; and a 12:1 rate ratio
    for order in (("b", "c"), ("c", "b")):
        wins = {"b": 1, "c": 4}
        eps = [_timeline({"a": (1, 0, 1), "b": (2, 1, 1), "c": (5, 2, 1)}, [("a", order[0], (0,), False), ("a", order[1], (0, 2), False), ("b", "c", (0,), False)], {"a": na, "b": nb, "c": nc}) for (na, nb, nc) in [(16, 8, 3), (11, 5, 2)]]
        s = H.spec({"a": H.node(32, 1), "b": H.node(16, 1), "c": H.node(4, 1)}, [H.edge("a", order[0], window=wins[order[0]]), H.edge("a", order[1], window=wins[order[1]]), H.edge("b", "c", window=2)], "c")
        out.append(dict(kind="raw", name=f"raw.fanout.{order[0]}{order[1]}", spec=s, episodes=eps))
    eps = [_timeline({"p": (1, 0, 1), "q": (1, 0, 1), "a": (5, 2, 1), "b": (5, 4, 1)}, [("p", "a", (0,), False), ("p", "b", (0, 1), False), ("q", "a", (0, 2), False), ("q", "b", (0,), False), ("a", "b", (0,), False)],
                     {"p": n1, "q": n1, "a": n2, "b": n2}) for (n1, n2) in [(17, 3), (12, 2)]]
    s = H.spec({"p": H.node(32, 1), "q": H.node(32, 1), "a": H.node(4, 1), "b": H.node(4, 1)},
               [H.edge("p", "a", window=4), H.edge("p", "b", window=1), H.edge("q", "a", window=1), H.edge("q", "b", window=4), H.edge("a", "b", window=1)], "b")
    out.append(dict(kind="raw", name="raw.cross", spec=s, episodes=eps))
    eps = [_timeline({"a": (1, 0, 1), "b": (12, 3, 2)}, [("a", "b", (0, 1), False), ("b", "a", (1,), True)], {"a": na, "b": nb}) for (na, nb) in [(40, 3), (28, 2)]]
    s = H.spec({"a": H.node(64, 1), "b": H.node(4, 1)}, [H.edge("a", "b", window=3), H.edge("b", "a", skip=True)], "b")
    out.append(dict(kind="raw", name="raw.ratio12", spec=s, episodes=eps))
    # sinks (nodes nothing depends on): a slow sink that is still running when a fast, one-shot sink has already finished
    # (pruning off must still execute the finished one inside the horizon)
    for late in (11, 7):
        eps = [_timeline({"a": (2, 0, 1), "b": (4, 2, 1), "s": (8, 5, 10), "f": (100, late, 1)},
                         [("a", "b", (0,), False), ("b", "s", (0,), False), ("b", "f", (0,), False)], {"a": 8, "b": 4, "s": 2, "f": 1})]
        s = H.spec({"a": H.node(32, 1), "b": H.node(16, 1), "s": H.node(8, 1), "f": H.node(4, 1)}, [H.edge("a", "b"), H.edge("b", "s", window=2), H.edge("b", "f")], "b")
        out.append(dict(kind="raw", name=f"raw.sinks.f{late}", spec=s, episodes=eps))
    # fan-in where one producer never reaches some steps (steps with 0 messages) and bursts (several messages per step)
    eps = [_timeline({"a": (1, 0, 1), "c": (7, 0, 1), "b": (3, 2, 1)}, [("a", "b", (0,), False), ("c", "b", (0, 9), False)], {"a": 14, "c": 3, "b": 5}),
           _timeline({"a": (1, 0, 1), "c": (7, 0, 1), "b": (3, 2, 1)}, [("a", "b", (2,), False), ("c", "b", (1,), False)], {"a": 10, "c": 2, "b": 3})]
    s = H.spec({"a": H.node(32, 1), "c": H.node(4, 1), "b": H.node(8, 1)}, [H.edge("a", "b", window=2), H.edge("c", "b", window=1)], "b")
    out.append(dict(kind="raw", name="raw.fan.burst", spec=s, episodes=eps))
    return out


def py_to_graph(episodes):
    """plain episodes -> rex.base.Graph (stacked with rex's own Graph.stack when more than one)"""
    from rex.base import Edge, Graph, Vertex

    gs = []
    for ep in episodes:
        V = {k: Vertex(seq=onp.array([x[0] for x in v], dtype=onp.int32), ts_start=onp.array([x[1] for x in v], dtype=onp.float64), ts_end=onp.array([x[2] for x in v], dtype=onp.float64)) for k, v in ep["vertices"].items()}
        E = {k: Edge(seq_out=onp.array([x[0] for x in v], dtype=onp.int32), seq_in=onp.array([x[1] for x in v], dtype=onp.int32), ts_recv=onp.array([x[2] for x in v], dtype=onp.float64)) for k, v in ep["edges"].items()}
        gs.append(Graph(vertices=V, edges=E))
    return gs[0] if len(gs) == 1 else Graph.stack(gs)


def materialize(src):
    """-> (graphs_raw | None, aux)"""
    if src["kind"] == "async":
        from vf.compiledx import async_record_to_graphs

        graphs_raw, res = async_record_to_graphs(dict(spec=src["spec"], user=src["user"], policy=src.get("policy", "prio")))
        return graphs_raw, dict(result=res)
    if src["kind"] == "gen":
        import jax

        from rex.artificial import generate_graphs
        from vf.probes import build_nodes

        nodes, _ = build_nodes(src["spec"], xp="jnp")
        g = generate_graphs(nodes, ts_max=src["ts_max"], rng=jax.random.PRNGKey(src["seed"]), num_episodes=src["episodes"])
        return g, {}
    if src["kind"] == "raw":
        return py_to_graph(src["episodes"]), {}
    raise ValueError(src["kind"])


def all_sources(tier, seed=0):
    return async_sources(tier, seed) + gen_sources(tier, seed) + raw_sources(tier, seed)
