"""C19 driver: breadth-first enumeration of all action sequences up to a depth through a real rex.rl wrapper stack
(vf/c19_probe.Real: one jit per stack, a chunk of BFS nodes per call) compared node by node with the reference models
of vf/c19_ref.  Pool tasks: `run_stack`, `run_squash`."""
import math
import time

import numpy as np

from vf import c19_ref as REF

ALPHABET = (-9.0, -1.0, 0.0, 0.5, 1.0, 7.0, 8.0)  # 7 terminates, 8 truncates, the others are rewards
K = len(ALPHABET)
CHUNK = 343
ROT = (0, 1, 3, 5)  # environment i of a vectorised stack plays the symbol (s + ROT[i]) mod K
MAX_VIOL = 3  # per signature


def _dbg(*a):
    import os
    import sys

    if os.environ.get("VERIF_C19_DEBUG"):
        print(f"[c19 {os.getpid()} {time.strftime('%H:%M:%S')}]", *a, file=sys.stderr, flush=True)


def bounds_of(spec):
    e = spec.get("env", {})
    return tuple(e.get("low", (-9.0,))), tuple(e.get("high", (8.0,)))


def act_layer(spec):
    for layer in spec.get("layers", []):
        if layer.split(":")[0] in ("squash", "clip"):
            return layer
    return None


def encode_symbol(spec, a):
    """wrapper-level action that commands the inner action `a` (extreme values command the bounds)."""
    (low,), (high,) = bounds_of(spec)
    al = act_layer(spec)
    if al is None:
        return a
    if al == "squash:1":
        if a <= low:
            return -1e6
        if a >= high:
            return math.inf
        return REF.inverse_transform(a, low, high, True)
    if a <= low:
        return -math.inf
    if a >= high:
        return 1e6
    return a


def encode(spec, s, n):
    """action array handed to the real stack for symbol index s."""
    rot = spec.get("rot", ROT)
    if n:
        return np.array([[encode_symbol(spec, ALPHABET[(s + rot[i]) % K])] for i in range(n)], np.float32)
    return np.array([encode_symbol(spec, ALPHABET[s])], np.float32)


def flatten(d, prefix=""):
    out = {}
    for k, v in d.items():
        if isinstance(v, dict):
            out.update(flatten(v, prefix + k + "/"))
        else:
            out[prefix + k] = v
    return out


def _fresh(flat, j, n):
    u, uid = flat["proj/w_u"], flat["proj/w_uid"]
    if j is not None:
        u, uid = u[j], uid[j]
    if n:
        return [(float(u[i]), (int(uid[i][0]), int(uid[i][1]))) for i in range(n)]
    return [(float(u), (int(uid[0]), int(uid[1])))]


def _derived(flat, spec):
    """real-side quantities that are functions of the real outputs (kept here so that the comparison stays one table)"""
    if "info/act" in flat and act_layer(spec) is not None:
        low, high = bounds_of(spec)
        a = flat["info/act"]
        with np.errstate(invalid="ignore"):
            flat["act_in_bounds"] = (a >= np.asarray(low, np.float32)) & (a <= np.asarray(high, np.float32))


def _align(items, V, dtype):
    """stack per-node scalars/arrays (each broadcastable against a node's value) into an array broadcastable against V"""
    a = np.asarray(items, dtype)
    return a.reshape((a.shape[0],) + (1,) * (V.ndim - a.ndim) + a.shape[1:])


def compare_chunk(exps, flat, cnt):
    """-> list over nodes of list of (path, real, expected) mismatches; dict path -> max error/tolerance ratio."""
    bad = [[] for _ in range(cnt)]
    margins = {}
    for path in exps[0]:
        V = np.stack([np.asarray(e[path][0]) for e in exps])
        real = np.asarray(flat[path])[:cnt]
        if real.shape != V.shape:
            for j in range(cnt):
                bad[j].append((path, f"shape {real.shape}", f"shape {V.shape}"))
            continue
        A = _align([e[path][1] for e in exps], V, np.float64)
        M = _align([e[path][2] for e in exps], V, bool)
        exact = A == 0
        if V.dtype == bool or real.dtype == bool:
            ok = real.astype(bool) == V.astype(bool)
        else:
            r64, v64 = real.astype(np.float64), V.astype(np.float64)
            with np.errstate(invalid="ignore"):
                same = (r64 == v64) | (np.isnan(r64) & np.isnan(v64))
                err = np.abs(r64 - v64)
                tol = A + REF.RTOL * np.abs(v64)
                ok = same | (~exact & (err <= tol))
                if (~exact).any():
                    ratio = np.where(~exact & M & ~same & np.isfinite(err), err / np.maximum(tol, 1e-300), 0.0)
                    margins[path] = max(margins.get(path, 0.0), float(ratio.max()) if ratio.size else 0.0)
        ok = ok | ~M
        if not ok.all():
            nodes = np.nonzero(~np.broadcast_to(ok, V.shape).reshape(cnt, -1).all(axis=1))[0]
            for j in nodes:
                bad[j].append((path, real[j].tolist(), V[j].tolist()))
    return bad, margins


def run_stack(arg):
    """arg: {spec, depth, key, path (optional: replay exactly this sequence of symbol indices)}"""
    from vf.common import import_rex

    import_rex()
    import jax

    from vf.c19_probe import Real

    t0 = time.time()
    spec, depth, key = arg["spec"], int(arg["depth"]), int(arg["key"])
    only = arg.get("path")
    if only is not None:
        depth = len(only)
    name = spec["name"]
    _dbg("start", name)
    R = Real(spec)
    M = REF.build_model(spec)
    n = R.nenv
    res = dict(name=name, nodes=0, steps=0, leaves=0, dones=0, resets=0, clipped_obs=0, clipped_rew=0, violations=[], margins={}, states=0, chunks=0)
    vcount = {}
    hashes = set()

    def report(path, mism):
        for (field, real, expv) in mism:
            sig = f"{name}:{field}"
            vcount[sig] = vcount.get(sig, 0) + 1
            if vcount[sig] <= MAX_VIOL:
                res["violations"].append(dict(signature=sig, what=dict(stack=spec, history=[ALPHABET[s] for s in path], field=field, real=real, expected=expv,
                                                                        note="history = symbols played by environment 0; environment i plays the symbol rotated by ROT[i]"),
                                              replay=dict(kind="bfs", spec=spec, key=key, path=list(path))))

    # ---- level 0: reset
    gs0, out0 = R.reset(key)
    flat = flatten(out0)
    ctx = REF.Ctx(_fresh(flat, None, n))
    st, obs, info, meta = M.reset(ctx)
    exp, ok, seen = REF.expectations(spec, M, st, obs, None, info, meta, frozenset(), ctx)
    flat["fresh_ok"] = ok
    flat1 = {k: np.asarray(v)[None] for k, v in flat.items()}
    bad, mg = compare_chunk([exp], flat1, 1)
    report((), bad[0])
    res["nodes"] += 1
    hashes.add(hash(st))
    t_compile = time.time() - t0

    f_gs = jax.tree_util.tree_map(lambda x: np.asarray(x)[None], gs0)
    f_ref = [(st, seen)]
    f_path = [()]
    for level in range(depth):
        if only is not None:
            children = [(0, int(only[level]))]
        else:
            children = [(p, s) for p in range(len(f_ref)) for s in range(K)]
        keep = level + 1 < depth
        n_gs, n_ref, n_path = [], [], []
        for c0 in range(0, len(children), CHUNK):
            ch = children[c0 : c0 + CHUNK]
            cnt = len(ch)
            idx = np.array([p for p, _ in ch] + [ch[0][0]] * (CHUNK - cnt))
            acts = np.stack([encode(spec, s, n) for _, s in ch] + [encode(spec, ch[0][1], n)] * (CHUNK - cnt))
            gs_b = jax.tree_util.tree_map(lambda x: x[idx], f_gs)
            gs2, out = R.step_chunk(gs_b, acts)
            res["chunks"] += 1
            flat = flatten(out)
            _derived(flat, spec)
            exps, oks = [], []
            for j, (p, s) in enumerate(ch):
                stp, seenp = f_ref[p]
                ctx = REF.Ctx(_fresh(flat, j, n))
                a = acts[j].astype(np.float64)
                a = tuple(tuple(x.tolist()) for x in a) if n else tuple(a.tolist())
                st2, obs, r, te, tr, info, meta = M.step(stp, a, ctx)
                exp, ok, seen2 = REF.expectations(spec, M, st2, obs, (r, te, tr), info, meta, seenp, ctx)
                exps.append(exp)
                oks.append(ok)
                hashes.add(hash(st2))
                d = np.atleast_1d(np.logical_or(te, tr))
                res["dones"] += int(d.sum())
                res["resets"] += sum(1 for m in (meta["vec"] if "vec" in meta else [meta]) if m.get("reset"))
                if "norm_obs" in meta:
                    res["clipped_obs"] += meta["norm_obs"]["clipped"]
                if "norm_reward" in meta:
                    res["clipped_rew"] += meta["norm_reward"]["clipped"]
                if keep:
                    n_ref.append((st2, seen2))
                    n_path.append(f_path[p] + (s,))
            flat["fresh_ok"] = np.stack(oks + [oks[0]] * (CHUNK - cnt))
            bad, mg = compare_chunk(exps, flat, cnt)
            for k_, v_ in mg.items():
                res["margins"][k_] = max(res["margins"].get(k_, 0.0), v_)
            for j, mism in enumerate(bad):
                if mism:
                    p, s = ch[j]
                    report(f_path[p] + (s,), mism)
            res["nodes"] += cnt
            res["steps"] += cnt
            if keep:
                n_gs.append(jax.tree_util.tree_map(lambda x: x[:cnt], gs2))
            else:
                res["leaves"] += cnt
        if keep:
            f_gs = jax.tree_util.tree_map(lambda *xs: np.concatenate(xs, axis=0), *n_gs)
            f_ref, f_path = n_ref, n_path
    res["states"] = len(hashes)
    res["violation_counts"] = vcount
    res["depth"] = depth
    res["wall"] = round(time.time() - t0, 2)
    res["compile"] = round(t_compile, 2)
    _dbg("done", name, res["wall"])
    return res


# ------------------------------------------------------------------------------------------------
# action transforms: full product bounds x transform x action lattice, one step each (the wrappers are stateless)
# ------------------------------------------------------------------------------------------------
BOUNDS1 = [(-9.0, 8.0), (0.0, 1.0), (-1.0, 1.0), (-2.0, -0.5), (-0.001, 1000.0), (-1e6, 1e6), (3.0, 3.5),
           # bounds that are not dyadic rationals: (high - low) + low need not round back to high in float32
           (-0.3, 0.9), (0.1, 0.7), (-1.7, 2.9), (1.0 / 3.0, 2.0 / 3.0), (-5.3, 7.7)]
BOUNDS2 = [((-9.0, -1.0), (8.0, 3.0)), ((0.0, -1e6), (1.0, 1e6)), ((-2.0, 3.0), (-0.5, 3.5))]
XS = [-math.inf, -1e6, -100.0, -20.0, -9.5, -5.0, -3.0, -2.0, -1.0, -0.5, -0.25, -1e-3, -0.0, 0.0, 1e-3, 0.25, 0.5, 1.0, 2.0, 3.0, 5.0, 9.5, 20.0, 100.0, 1e6, math.inf]
FRACS = [0.0, 0.125, 0.25, 0.375, 0.5, 0.625, 0.75, 0.875, 1.0]
KINDS = ["squash:1", "squash:0", "clip"]


def squash_cases():
    """-> list of (low tuple, high tuple, v tuple): for every bounds the extreme/ordinary lattice XS and the lattice of
    inner actions low + f (high - low); 2-dim bounds additionally mix an extreme and an interior component."""
    cases = []
    for low, high in [((lo,), (hi,)) for lo, hi in BOUNDS1] + BOUNDS2:
        d = len(low)
        for x in XS:
            cases.append((low, high, tuple([x] * d)))
        for f in FRACS:
            cases.append((low, high, tuple(float(np.float32(lo + f * (hi - lo))) for lo, hi in zip(low, high))))
        if d == 2:
            cases.append((low, high, (math.inf, 0.25)))
            cases.append((low, high, (-0.5, -1e6)))
            cases.append((low, high, (float(np.float32(low[0])), float(np.float32(high[1])))))
    return cases


def run_squash(arg):
    """arg: {kind, key, only (optional list of case indices)}.  Per case (low, high, v), on the real code:
      U  = unsquash(v)            v read as a wrapper-level action   (rex.rl.SquashState, 1- and 2-dim bounds)
      SU = scale(unsquash(v))
      US = unsquash(scale(v))     v read as an inner action, meaningful where low <= v <= high
      E  = the action the probe environment receives through the wrapper (1-dim bounds), and the supervisor output."""
    from vf.common import import_rex

    import_rex()
    import jax

    import rex.rl as rl
    from vf.c19_probe import build_env, make_graph

    t0 = time.time()
    make_graph()  # compile the rex graph outside of any trace
    kind, key = arg["kind"], int(arg["key"])
    squash = kind == "squash:1"
    cases = list(enumerate(squash_cases()))
    if arg.get("only") is not None:
        cases = [cases[i] for i in arg["only"]]
    res = dict(name="act:" + kind, cases=0, compared=0, violations=[], margins={}, wall=0.0, in_bounds_checked=0, saturated=0)
    vcount = {}

    def viol(field, ci, case, real, expv):
        sig = f"act:{kind}:{field}"
        vcount[sig] = vcount.get(sig, 0) + 1
        if vcount[sig] <= MAX_VIOL:
            res["violations"].append(dict(signature=sig, what=dict(kind=kind, low=case[0], high=case[1], v=case[2], field=field, real=real, expected=expv),
                                          replay=dict(kind="squash", layer=kind, key=key, only=[ci])))

    def through_env(x, low, high):
        env, base = build_env(dict(layers=[kind]), bounds=(low, high))
        gs, _, _ = env.reset(jax.random.PRNGKey(key))
        gs2, obs, r, te, tr, info = env.step(gs, x)
        return info["act"], gs2.inputs["world"]["agent"][-1].data.a

    def direct(x, low, high):
        s = rl.SquashState(low=low, high=high, squash=squash)
        return s.unsquash(x), s.scale(s.unsquash(x)), s.unsquash(s.scale(x))

    f_env = jax.jit(jax.vmap(through_env))
    f_dir = jax.jit(jax.vmap(direct))
    for d in (1, 2):
        sub = [(i, c) for i, c in cases if len(c[0]) == d]
        if not sub:
            continue
        low = np.array([c[0] for _, c in sub], np.float32)
        high = np.array([c[1] for _, c in sub], np.float32)
        x = np.array([c[2] for _, c in sub], np.float32)
        lo64, hi64, x64 = low.astype(np.float64), high.astype(np.float64), x.astype(np.float64)
        span = hi64 - lo64
        mag = np.maximum(np.maximum(np.abs(lo64), np.abs(hi64)), span)
        ref = 0.5 * (np.tanh(x64) + 1.0) * span + lo64 if squash else np.clip(x64, lo64, hi64)
        outs = {}
        if kind != "clip":
            U, SU, US = (np.asarray(v) for v in f_dir(x, low, high))
            outs["state"] = U
        if d == 1:
            E, sup = (np.asarray(v) for v in f_env(x, low, high))
            outs["env"] = E
        res["cases"] += len(sub)
        for tag, real in outs.items():
            # value: clip is exact; squash is a float32 tanh (a few ulp of 1) followed by an affine map whose rounding is a
            # few ulp of the largest magnitude involved
            tol = 8 * REF.EPS32 * mag if squash else np.zeros_like(mag)
            okv = np.abs(real.astype(np.float64) - ref) <= tol
            # inside the bounds, always: exact float32 comparison, i.e. what Box.contains evaluates
            okb = (real >= low) & (real <= high)
            res["in_bounds_checked"] += int(okb.size)
            res["saturated"] += int(((real == low) | (real == high)).sum())
            res["margins"][tag + ":value"] = max(res["margins"].get(tag + ":value", 0.0), float(np.max(np.where(tol > 0, np.abs(real - ref) / np.maximum(tol, 1e-300), 0.0))))
            for j in np.nonzero(~okv.all(axis=1))[0]:
                viol(f"{tag}:value", sub[j][0], sub[j][1], real[j].tolist(), ref[j].tolist())
            for j in np.nonzero(~okb.all(axis=1))[0]:
                # an overshoot of at most 2 ulp of the magnitude is the rounding of low + (high - low); anything larger is a
                # missing tanh/clip.  Both violate "always inside the bounds"; they get different signatures.
                over = np.maximum(np.nan_to_num(real[j] - high[j], nan=np.inf), np.nan_to_num(low[j] - real[j], nan=np.inf)).max()
                cls = "in_bounds_rounding_overshoot" if over <= 2 * REF.EPS32 * mag[j].max() else "in_bounds"
                viol(f"{cls}:{tag}", sub[j][0], sub[j][1], real[j].tolist(), [low[j].tolist(), high[j].tolist()])
            res["compared"] += 2 * real.shape[0]
        if d == 1:
            # the supervisor output the world receives is get_output(transformed action): half-quantised
            q = np.round(E * np.float32(2)) / np.float32(2)
            for j in np.nonzero(~(sup == q).all(axis=1))[0]:
                viol("env:output", sub[j][0], sub[j][1], sup[j].tolist(), q[j].tolist())
            res["compared"] += sup.shape[0]
        if kind != "clip":
            # scale(unsquash(x)) = x.  squash: for |x| <= 3 (beyond, float32 tanh saturates and the inverse is ill-conditioned
            # by nature); an error dt in tanh(x) becomes dt / (1 - t^2) in x, dt = a few ulp of 1 plus the resolution of the
            # affine image (|bound| / span ulp).  no squash: identity inside the bounds, exact.
            if squash:
                dom = np.abs(x64) <= 3.0
                tolx = 8 * REF.EPS32 * (1.0 + mag / span) / (1.0 - np.tanh(x64) ** 2) + 1e-6
            else:
                dom = (x64 >= lo64) & (x64 <= hi64)
                tolx = np.zeros_like(x64)
            with np.errstate(invalid="ignore"):
                errx = np.where(dom, np.abs(SU.astype(np.float64) - x64), 0.0)
            okx = (errx <= tolx) | ~dom
            for j in np.nonzero(~okx.all(axis=1))[0]:
                viol("state:scale_after_unsquash", sub[j][0], sub[j][1], SU[j].tolist(), x[j].tolist())
            # unsquash(scale(a)) = a for a inside the bounds: tanh(arctanh(t)) returns t up to a few ulp of 1, i.e. a few ulp
            # of the span, plus the rounding of the two affine maps (ulp of the magnitude)
            ins = (x64 >= lo64) & (x64 <= hi64)
            tola = 16 * REF.EPS32 * mag if squash else np.zeros_like(mag)
            with np.errstate(invalid="ignore"):
                erra = np.where(ins, np.abs(US.astype(np.float64) - x64), 0.0)
            oka = (erra <= tola) | ~ins
            for j in np.nonzero(~oka.all(axis=1))[0]:
                viol("state:unsquash_after_scale", sub[j][0], sub[j][1], US[j].tolist(), x[j].tolist())
            res["compared"] += 2 * x.shape[0]
            if squash:
                res["margins"]["scale_after_unsquash"] = max(res["margins"].get("scale_after_unsquash", 0.0), float(np.max(errx / tolx)))
                res["margins"]["unsquash_after_scale"] = max(res["margins"].get("unsquash_after_scale", 0.0), float(np.max(erra / tola)))
            res["inverse_domain"] = res.get("inverse_domain", 0) + int(dom.sum()) + int(ins.sum())
    res["violation_counts"] = vcount
    res["wall"] = round(time.time() - t0, 2)
    return res
