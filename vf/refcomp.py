"""Reference models for the compiled runtime (DESIGN 4.2): RefWindow, RefSchedule, RefBuffer, RefExec.

Plain Python over a plain representation of the raw computation graphs:
  episode = dict(vertices={kind: [(seq, ts_start, ts_end), ...]}, edges={(n1, n2): [(seq_out, seq_in, ts_recv), ...]})
with only real entries kept (padding -1 removed; never-received messages keep seq_in = -1).
Connection meta: conns[(n1, n2)] = dict(window=W_total, skip=bool) where W_total already includes the extension for
trainable delays.
"""
import numpy as onp

from vf.probes import f32_bits, py_default_out_h, py_init_state_h, py_next_rng, py_param, py_probe_hash


def graphs_to_py(graphs_raw):
    """rex.base.Graph (batched or not) -> list of plain episodes"""
    vs = {k: (onp.asarray(v.seq), onp.asarray(v.ts_start, dtype=onp.float64), onp.asarray(v.ts_end, dtype=onp.float64)) for k, v in graphs_raw.vertices.items()}
    es = {k: (onp.asarray(e.seq_out), onp.asarray(e.seq_in), onp.asarray(e.ts_recv, dtype=onp.float64)) for k, e in graphs_raw.edges.items()}
    first = next(iter(vs.values()))[0]
    if first.ndim == 1:
        vs = {k: tuple(a[None] for a in v) for k, v in vs.items()}
        es = {k: tuple(a[None] for a in v) for k, v in es.items()}
    n_eps = next(iter(vs.values()))[0].shape[0]
    out = []
    for e in range(n_eps):
        ep = dict(vertices={}, edges={})
        for k, (seq, a, b) in vs.items():
            ep["vertices"][k] = [(int(s), float(x), float(y)) for s, x, y in zip(seq[e], a[e], b[e]) if s >= 0]
        for k, (so, si, tr) in es.items():
            ep["edges"][tuple(k)] = [(int(s), int(i), float(t)) for s, i, t in zip(so[e], si[e], tr[e]) if s >= 0]
        out.append(ep)
    return out


class RefWindow:
    def __init__(self, ep, conns):
        self.ep, self.conns = ep, conns
        self.ts_end = {k: {s: e for (s, _, e) in v} for k, v in ep["vertices"].items()}
        self.inputs = {}
        for (n1, n2) in conns:
            self.inputs.setdefault(n2, []).append(n1)
        for n2 in self.inputs:
            self.inputs[n2].sort()
        self._cache = {}

    def window(self, n1, n2, k):
        """last W messages consumed up to step k, oldest first, padded in front with (-1, 0, 0)"""
        key = (n1, n2, k)
        if key not in self._cache:
            W = self.conns[(n1, n2)]["window"]
            got = [(so, self.ts_end[n1].get(so, 0.0), tr) for (so, si, tr) in self.ep["edges"].get((n1, n2), []) if 0 <= si <= k][-W:]
            self._cache[key] = [(-1, 0.0, 0.0)] * (W - len(got)) + got
        return self._cache[key]

    def producers(self, n2, k):
        return [(n1, s) for n1 in self.inputs.get(n2, []) for (s, _, _) in self.window(n1, n2, k) if s >= 0]

    def preds(self, n, k):
        p = set(self.producers(n, k))
        if k > 0:
            p.add((n, k - 1))
        return p

    def ancestors(self, targets):
        seen, stack = set(), list(targets)
        while stack:
            v = stack.pop()
            for u in self.preds(*v):
                if u not in seen:
                    seen.add(u)
                    stack.append(u)
        return seen


def timings_to_py(timings):
    import jax

    t = jax.tree_util.tree_map(lambda x: onp.asarray(x), timings)
    slots = {}
    for name, s in t.slots.items():
        slots[name] = dict(kind=s.kind, generation=s.generation, run=s.run, seq=s.seq, ts_start=s.ts_start, ts_end=s.ts_end,
                           windows={n1: dict(seq=w.seq, ts_sent=w.ts_sent, ts_recv=w.ts_recv) for n1, w in s.windows.items()})
    return slots


def ref_schedule(eps_py, conns, slots, supervisor, prune, max_err=8):
    """C07 oracle. Returns (violations, stats)."""
    v = []

    def err(sig, *d):
        if len(v) < max_err:
            v.append((sig, d))

    any_slot = next(iter(slots.values()))
    n_eps, P = any_slot["run"].shape[:2]
    n_gen = 1 + max(s["generation"] for s in slots.values())
    sup_slots = [n for n, s in slots.items() if s["kind"] == supervisor]
    stats = dict(scheduled=0, needed=0, order_edges=0, slots=len(slots), partitions=int(P), episodes=int(n_eps), generations=n_gen)
    if len(sup_slots) != 1 or slots[sup_slots[0]]["generation"] != n_gen - 1 or sum(1 for s in slots.values() if s["generation"] == n_gen - 1) != 1:
        err("supervisor-slot-not-alone-in-last-generation", sup_slots)
        return v, stats
    Pmin = min(len(ep["vertices"][supervisor]) for ep in eps_py)
    if P != Pmin:
        err("number-of-partitions", P, Pmin)
    for e, ep in enumerate(eps_py):
        rw = RefWindow(ep, conns)
        pos = {}
        for name, s in slots.items():
            for p in range(P):
                if s["run"][e, p]:
                    key = (s["kind"], int(s["seq"][e, p]))
                    stats["scheduled"] += 1
                    if key in pos:
                        err("vertex-scheduled-twice", e, key, pos[key], (p, s["generation"], name))
                    pos[key] = (p, s["generation"], name)
                    # the slot carries the vertex's own seq, times and windows
                    vx = next((x for x in ep["vertices"][s["kind"]] if x[0] == key[1]), None)
                    if vx is None:
                        err("scheduled-vertex-not-in-graph", e, key)
                        continue
                    if f32_bits(s["ts_start"][e, p]) != f32_bits(vx[1]) or f32_bits(s["ts_end"][e, p]) != f32_bits(vx[2]):
                        err("slot-times", e, key, (float(s["ts_start"][e, p]), float(s["ts_end"][e, p])), vx[1:])
                    for n1, w in s["windows"].items():
                        exp = rw.window(n1, s["kind"], key[1])
                        got = list(zip(w["seq"][e, p].tolist(), w["ts_sent"][e, p].tolist(), w["ts_recv"][e, p].tolist()))
                        ok = len(got) == len(exp) and all(
                            ((g[0] < 0) == (x[0] < 0)) and (x[0] < 0 or (g[0] == x[0] and f32_bits(g[1]) == f32_bits(x[1]) and f32_bits(g[2]) == f32_bits(x[2]))) for g, x in zip(got, exp)
                        )
                        if not ok:
                            err("slot-window", e, key, n1, got, exp)
        # supervisor step p closes partition p
        for p in range(P):
            key = (supervisor, p)
            if pos.get(key, (None,))[0] != p:
                err("supervisor-step-not-closing-its-partition", e, key, pos.get(key))
        # coverage
        needed = {}
        for p in range(P):
            for a in rw.ancestors([(supervisor, p)]) | {(supervisor, p)}:
                needed.setdefault(a, p)
        if not prune:
            # pruning off: every vertex that finishes before a supervisor step (inside the horizon) starts is executed
            # within the horizon (the statement does not say in which partition: only ancestors are bound to <= p)
            # This clause is about vertices no supervisor step depends on (sinks, tails). A vertex that only a supervisor
            # step *beyond* the horizon depends on (ragged stacks: the horizon is the shortest episode) belongs to that
            # step's partition and is not demanded inside the horizon.
            sup_start = {s: a for (s, a, _) in ep["vertices"][supervisor]}
            dep_any = rw.ancestors([(supervisor, s) for s in sup_start]) | {(supervisor, s) for s in sup_start}
            for kind, vs in ep["vertices"].items():
                for (s, a, b) in vs:
                    if (kind, s) not in needed and (kind, s) not in dep_any and any(b <= sup_start[p] for p in range(P)):
                        needed[(kind, s)] = P - 1
        stats["needed"] += len(needed)
        for key, p in needed.items():
            if key not in pos:
                err("needed-vertex-not-scheduled", e, key, "needed by supervisor step", p)
            elif pos[key][0] > p:
                err("needed-vertex-scheduled-too-late", e, key, "partition", pos[key][0], "needed by", p)
        # order: producers and the previous step of the same node strictly before
        for key, (p, g, name) in pos.items():
            for u in rw.preds(*key):
                stats["order_edges"] += 1
                if u not in pos:
                    if u[0] == key[0]:
                        err("previous-step-not-scheduled", e, key, u)
                    else:
                        err("window-producer-not-scheduled", e, key, u)
                elif not (pos[u][0], pos[u][1]) < (p, g):
                    err("dependency-order", e, "vertex", key, "at", (p, g), "needs", u, "at", pos[u][:2])
    return v, stats


def ref_buffer(eps_py, conns, slots, supervisor, sizes, max_err=8):
    """C08 static oracle: replay the schedule against an abstract ring-buffer machine (cells hold (producer, seq) tags).
    sizes: {kind: ring size}. Execution order: per partition, generations in order; inside a generation all reads see the
    buffer as of generation start, then the generation's writes land; the supervisor reads after the last generation and
    writes its own output afterwards (run_supervisor)."""
    v = []
    any_slot = next(iter(slots.values()))
    n_eps, P = any_slot["run"].shape[:2]
    n_gen = 1 + max(s["generation"] for s in slots.values())
    by_gen = [[(n, s) for n, s in slots.items() if s["generation"] == g] for g in range(n_gen)]
    stats = dict(reads=0, default_reads=0, writes=0)
    for e in range(n_eps):
        buf = {k: ["default"] * int(sz) for k, sz in sizes.items()}
        for p in range(P):
            for g in range(n_gen):
                writes = []
                for name, s in by_gen[g]:
                    if not s["run"][e, p]:
                        continue
                    kind, seq = s["kind"], int(s["seq"][e, p])
                    for n1, w in s["windows"].items():
                        for sq in w["seq"][e, p].tolist():
                            cell = buf[n1][sq % len(buf[n1])]
                            stats["reads"] += 1
                            if sq < 0:
                                stats["default_reads"] += 1
                                if cell != "default":
                                    if len(v) < max_err:
                                        v.append(("default-entry-reads-overwritten-cell", (e, p, g, kind, seq, n1, sq, cell)))
                            elif cell != (n1, sq):
                                if len(v) < max_err:
                                    v.append(("window-entry-reads-wrong-cell", (e, p, g, kind, seq, "wants", (n1, sq), "cell holds", cell, "size", len(buf[n1]))))
                    writes.append((kind, seq))
                for kind, seq in writes:
                    buf[kind][seq % len(buf[kind])] = (kind, seq)
                    stats["writes"] += 1
    return v, stats


class RefExec:
    """Interpreter: executes one episode of a computation graph vertex by vertex with the probe's hash step."""

    def __init__(self, ep, conns, ids, eps_idx, init_rng, overridden=None):
        self.rw = RefWindow(ep, conns)
        self.ep, self.ids, self.eps_idx, self.init_rng = ep, ids, eps_idx, init_rng
        self.ts_start = {k: {s: a for (s, a, _) in v} for k, v in ep["vertices"].items()}
        self._pay = {}

    def rng_at(self, n, k):
        r = tuple(int(x) for x in self.init_rng[n])
        for _ in range(k):
            r = py_next_rng(r)
        return r

    def payload(self, n, k):
        key = (n, k)
        if key in self._pay:
            return self._pay[key]
        pid = self.ids[n]
        # iterative over the state chain to keep recursion shallow
        if k > 0 and (n, k - 1) not in self._pay:
            for j in range(k):
                self.payload(n, j)
        state_before = py_init_state_h(pid) if k == 0 else self._pay[(n, k - 1)]["out_h"]
        rng = self.rng_at(n, k)
        wins, desc = [], {}
        for n1 in self.rw.inputs.get(n, []):
            ent, full = [], []
            for (s, a, b) in self.rw.window(n1, n, k):
                dh = py_default_out_h(self.ids[n1]) if s < 0 else self.payload(n1, s)["out_h"]
                ent.append((dh, s, f32_bits(a), f32_bits(b)))
                full.append((s, a, b, dh))
            wins.append(ent)
            desc[n1] = full
        out_h = py_probe_hash(pid, py_param(pid), self.eps_idx, k, f32_bits(self.ts_start[n][k]), rng, state_before, wins)
        res = dict(out_h=out_h, state_before=state_before, rng=rng, windows=desc, ts_bits=f32_bits(self.ts_start[n][k]))
        self._pay[key] = res
        return res
