"""C12 family F-gen: the finite, explicitly enumerated space of generate_graphs / augment_graphs inputs.

A *group* is one base configuration run under one (episodes, seed) pair:
    first at the base horizon T0, then at the horizons {prev(E), E, next(E)} for each landing target, where E is the end time
    (read from the T0 run, same seed, hence same samples) of a chosen vertex and prev/next are the neighbouring float32 values:
    the horizon lands exactly on / just before / just after a vertex end;
    and, if the group carries an augmentation plan, every split of its node set into "already present" / "to add".

Dimensions (the thorough tier enumerates the full list built here; the quick tier a fixed core plus a VERIF_SEED-rotated slice):
  topology   7 node sets of 2-4 nodes (chain, 2-cycle with skip, 3-chain, fan-in, 3-cycle with skip, chain + isolated node, diamond with feedback)
  rates      dyadic {4,8,16}: all 9 pairs / 6 triples / 5 quadruples;  generic {5,7,10}: all 9 pairs / 4 triples / 2 quadruples
             (+ the dyadic pairs (16,8), (8,16), (16,8,4), (16,8,8,4) with the continuous delay kinds)
  delays     dyadic lattice kinds: det0 det1 detover deteq none train train1 two twob;  generic kinds: gdet gtrain norm normneg mix
  variant    v0 = required skips only, all windows 1;  v1 = additionally skip on the first connection, windows 1,2,3 cycling
  episodes   {1,2,3}, seeds: deterministic members one group (episodes rotating with the member index), stochastic members two (episodes, seed) pairs
  horizons   T0 and 3 per landing target (2 targets on the dyadic v0 members, 1 elsewhere)
  augmentation  49 members (7 kinds x 7 topologies): every non-empty subset of the node set as "present" x connections among them
             {all kept, none kept, each one dropped alone} x present graph taken as {generated stack, single unbatched episode, ragged -1 padded stack}
"""
import itertools

U = 1.0 / 64.0

TOPOLOGIES = {
    # name: (number of nodes, [(sender index, receiver index, skip required)])
    "T2a": (2, [(0, 1, False)]),
    "T2c": (2, [(0, 1, False), (1, 0, True)]),
    "T3ch": (3, [(0, 1, False), (1, 2, False)]),
    "T3fi": (3, [(0, 2, False), (1, 2, False)]),
    "T3cy": (3, [(0, 1, False), (1, 2, False), (2, 0, True)]),
    "T3iso": (3, [(0, 1, False)]),
    "T4d": (4, [(0, 1, False), (0, 2, False), (1, 3, False), (2, 3, False), (3, 0, True)]),
}
NAMES = "abcd"

DYADIC_RATES = {
    2: list(itertools.product((4, 8, 16), repeat=2)),
    3: [(16, 16, 16), (8, 8, 8), (4, 8, 16), (16, 8, 4), (8, 16, 4), (16, 4, 8)],
    4: [(16, 16, 16, 16), (8, 8, 8, 8), (4, 8, 16, 8), (16, 8, 4, 8), (4, 16, 4, 16)],
}
GENERIC_RATES = {
    2: list(itertools.product((5, 7, 10), repeat=2)),
    3: [(5, 7, 10), (10, 7, 5), (7, 10, 5), (10, 10, 10)],
    4: [(5, 7, 10, 7), (10, 5, 7, 10)],
}
# dyadic rates that also carry the continuous kinds
MIXED_RATES = {2: [(16, 8), (8, 16)], 3: [(16, 8, 4)], 4: [(16, 8, 8, 4)]}
# rates of the members that carry an augmentation plan
AUG_RATES = {2: [(4, 16), (5, 7)], 3: [(4, 8, 16), (10, 7, 5)], 4: [(4, 8, 16, 8), (10, 5, 7, 10)]}
AUG_KINDS = ("det1", "train", "two", "deteq", "gdet", "norm", "mix")

DYADIC_KINDS = ["det0", "det1", "detover", "deteq", "none", "train", "train1", "two", "twob"]
GENERIC_KINDS = ["gdet", "gtrain", "norm", "normneg", "mix"]
STOCHASTIC = {"two", "twob", "norm", "normneg", "mix"}

T0_DYADIC = 48 * U  # 0.75 s: 3-4 steps at 4 Hz, 12-13 at 16 Hz
T0_GENERIC = 0.83


def det(v):
    return dict(k="det", v=float(v))


def _delays(kind, i, j, rate_i):
    """(comp DIST, expected comp delay) of node i, or (comm DIST, expected comm delay) of connection j."""
    period = 64 // rate_i if rate_i in (4, 8, 16) else None  # in units of U
    if kind == "det0":
        return (det(0.0), 0.0), (det(0.0), 0.0)
    if kind == "det1":
        c, m = [1, 2, 1, 3][i], [1, 0, 2, 1, 3][j]
        return (det(c * U), (c + i % 2) * U), (det(m * U), m * U)  # the expected delay (phase) need not equal the simulated one
    if kind == "detover":
        c, m = (period + 2 if i == 0 else [0, 1, 1, 2][i]), [5, 1, 2, 0, 3][j]  # node 0 overruns its period
        return (det(c * U), 1 * U), (det(m * U), m * U)
    if kind == "deteq":
        return (det(period * U), 1 * U), (det(2 * U), 2 * U)
    if kind == "none":
        return (dict(k="none"), 1 * U), (dict(k="none"), 1 * U)
    if kind in ("train", "train1"):
        c, m = [1, 2, 1, 3][i], [1, 0, 2, 1, 3][j]
        comm = dict(k="train", min=m * U, max=(m + 4) * U, delay=(m + 2) * U) if (kind == "train" or j == 0) else det(m * U)
        return (det(c * U), c * U), (comm, (m + 2) * U)
    if kind == "two":
        # durations straddle the period (spacing- and overlap-bound steps alternate); arrivals may overtake each other
        return (dict(k="two", v=[1 * U, (period + 1) * U], p=[0.5, 0.5]), 1 * U), (dict(k="two", v=[0.0, 6 * U], p=[0.5, 0.5]), 1 * U)
    if kind == "twob":
        return (dict(k="two", v=[0.0, 2 * U], p=[0.5, 0.5]), 1 * U), (dict(k="two", v=[1 * U, 2 * U], p=[0.7, 0.3]), 1 * U)
    if kind == "gdet":
        c, m = 0.01 * (i + 1), 0.003 * (j + 1) + 0.001
        return (det(c), c), (det(m), m)
    if kind == "gtrain":
        c, m = 0.01 * (i + 1), 0.004 * (j + 1)
        return (det(c), c), (dict(k="train", min=m, max=m + 0.02, delay=m + 0.01), m + 0.01)
    if kind == "norm":
        return (dict(k="normal", mu=0.3 / rate_i, sigma=0.1 / rate_i), 0.3 / rate_i), (dict(k="normal", mu=0.02, sigma=0.008), 0.02)
    if kind == "normneg":  # half of the samples are clipped at 0: exact ties between an end, an arrival and a start
        return (dict(k="normal", mu=0.0, sigma=0.01), 0.0), (dict(k="normal", mu=0.0, sigma=0.02), 0.0)
    if kind == "mix":
        return (
            (dict(k="mix", p=[0.7, 0.3], mu=[0.2 / rate_i, 0.9 / rate_i], sigma=[0.02 / rate_i, 0.1 / rate_i]), 0.3 / rate_i),
            (dict(k="mix", p=[0.6, 0.4], mu=[0.005, 0.06], sigma=[0.001, 0.01]), 0.01),
        )
    raise ValueError(kind)


def make_spec(topo, rates, kind, variant):
    n, edges = TOPOLOGIES[topo]
    lattice = "dyadic" if (kind in DYADIC_KINDS and all(r in (4, 8, 16) for r in rates)) else "generic"
    nodes = []
    for i in range(n):
        (comp, delay), _ = _delays(kind, i, 0, rates[i])
        nodes.append(dict(name=NAMES[i], rate=rates[i], delay=delay, comp=comp))
    es = []
    for j, (o, r, skip) in enumerate(edges):
        _, (comm, delay) = _delays(kind, 0, j, rates[o])
        es.append(dict(o=NAMES[o], n=NAMES[r], skip=bool(skip or (variant == 1 and j == 0)), window=(1 if variant == 0 else 1 + j % 3), delay=delay, comm=comm))
    return dict(lattice=lattice, nodes=nodes, edges=es)


def base_configs():
    """[(id, topo, rates, kind, variant)] - the full family of base configurations, in a fixed order."""
    out = []
    for topo, (n, _) in TOPOLOGIES.items():
        for variant in (0, 1):
            for rates in DYADIC_RATES[n]:
                for kind in DYADIC_KINDS:
                    out.append((topo, rates, kind, variant))
            for rates in GENERIC_RATES[n] + MIXED_RATES[n]:
                for kind in GENERIC_KINDS:
                    out.append((topo, rates, kind, variant))
    return [(f"{t}.{'-'.join(map(str, r))}.{k}.v{v}", t, r, k, v) for (t, r, k, v) in out]


def targets_for(topo):
    n = TOPOLOGIES[topo][0]
    return [(0, 2), (n - 1, 1)]  # (node index, step index)


def splits(spec, edge_mode):
    """Every split of the node set: [(present nodes, kept internal edges)].

    edge_mode "all-none": the connections among the present nodes are all kept or all dropped;
    "single": additionally each one dropped alone.
    """
    names = [n["name"] for n in spec["nodes"]]
    out = []
    for r in range(1, len(names) + 1):
        for P in itertools.combinations(names, r):
            internal = [f"{e['o']}>{e['n']}" for e in spec["edges"] if e["o"] in P and e["n"] in P]
            opts = [tuple(internal)]
            if internal:
                opts.append(())
                if edge_mode == "single" and len(internal) > 1:
                    for k in internal:
                        opts.append(tuple(x for x in internal if x != k))
            for kept in opts:
                out.append((list(P), list(kept)))  # includes "everything present": augmentation must then be the identity
    return out


QUICK_STRIDE = 20
AUG_PRESENT_VARIANTS = ["raw", "single", "ragged"]


def groups(tier, seed):
    """The list of groups (JSON-able dicts) of a tier.  Returns (groups, family_size_groups, description)."""
    base = base_configs()
    all_groups = []
    for idx, (cid, topo, rates, kind, variant) in enumerate(base):
        if kind in STOCHASTIC:
            es = [(1 + idx % 3, 0), (1 + (idx + 1) % 3, 1)]
        else:
            es = [(1 + idx % 3, idx % 5)]
        for gi, (eps, s) in enumerate(es):
            aug = None
            if gi == 0 and variant == 0 and kind in AUG_KINDS and tuple(rates) in AUG_RATES[len(rates)]:
                aug = dict(edge_mode="single", variants=list(AUG_PRESENT_VARIANTS), episodes=3)
            tg = targets_for(topo)
            if not (kind in DYADIC_KINDS and variant == 0):
                tg = tg[:1]
            all_groups.append(dict(id=f"{cid}.e{eps}s{s}", idx=idx, topo=topo, rates=list(rates), kind=kind, variant=variant, episodes=eps, seed=s,
                                   T0=(T0_DYADIC if kind in DYADIC_KINDS else T0_GENERIC), targets=tg, aug=aug))
    if tier == "thorough":
        return all_groups, len(all_groups)
    # quick: fixed core + rotated slice -------------------------------------------------------------------------
    core_ids = set()
    core = []

    def pick(topo, rates, kind, variant, with_aug=False):
        for g in all_groups:
            if g["topo"] == topo and tuple(g["rates"]) == tuple(rates) and g["kind"] == kind and g["variant"] == variant and g["id"] not in core_ids:
                g = dict(g)
                g["targets"] = g["targets"][:1]
                g["aug"] = dict(edge_mode="all-none", variants=["raw", "ragged"] if len(rates) < 4 else ["raw"], episodes=2) if with_aug else None
                core_ids.add(g["id"])
                core.append(g)
                return
        raise KeyError((topo, rates, kind, variant))

    pick("T2c", (16, 16), "det0", 0)
    pick("T2c", (16, 8), "det1", 0, with_aug=True)
    pick("T2c", (8, 16), "two", 0)
    pick("T2a", (16, 4), "detover", 1)
    pick("T2a", (4, 16), "train", 0, with_aug=True)
    pick("T3ch", (4, 8, 16), "deteq", 0)
    pick("T3fi", (16, 8, 4), "train1", 1)
    pick("T3fi", (8, 16, 4), "twob", 0)
    pick("T3cy", (16, 16, 16), "det0", 0)
    pick("T3cy", (4, 8, 16), "two", 0, with_aug=True)
    pick("T3iso", (8, 8, 8), "none", 0)
    pick("T4d", (16, 8, 4, 8), "det1", 0, with_aug=True)
    pick("T4d", (8, 8, 8, 8), "two", 1)
    pick("T2c", (10, 7), "gdet", 0)
    pick("T3cy", (5, 7, 10), "norm", 0, with_aug=True)
    pick("T3fi", (10, 7, 5), "mix", 1)
    pick("T2a", (7, 10), "normneg", 0)
    pick("T3ch", (16, 8, 4), "gtrain", 0)
    stride = QUICK_STRIDE
    rot = []
    for k, g in enumerate(all_groups):
        if g["id"] in core_ids or k % stride != seed % stride:
            continue
        g = dict(g)
        g["targets"] = g["targets"][:1]
        g["aug"] = None
        rot.append(g)
    return core + rot, len(all_groups)
