"""Source of MANIFEST.json (python3 /tmp-free: run `python3 tools/mkmanifest.py`)."""
ENTRIES = [
 ("C05", "Every schedule within the completed deviation bound (quick d<=1, thorough d<=2) of three base scheduling policies, for every call history of <=2 episodes over {reset,step,step-override,run,stop} on the lifecycle harnesses L0-L4 under the simulated and the (virtual-time) wall clock, was executed on the real code; each lifecycle call returned, no task raised, and every episode equalled the sequential reference model from seq 0 / time 0 with no stale message.",
  "Interleavings beyond the deviation bound, graphs outside the harness set, and preemptions inside GIL-atomic regions (below granularity G1/G2) are not covered; JAX runtime threads are not scheduled.",
  "stateless model checking of the implementation (controlled scheduler, iterative deviation bounding) + reference-model equality", "6/C05"),
]
ALL = ["C%02d" % i for i in range(1, 21)]
NOT_APPLICABLE = [dict(property_id=p, reason="check not built yet (work in progress; see DESIGN.md section 13 build order)") for p in ALL if p not in [e[0] for e in ENTRIES]]
