"""Self-made mutants (DESIGN section 9): apply one textual replacement to a scratch copy of /repo and run checks on it.
usage: python tools/selfmut.py <name> [CHECK ...]   |   python tools/selfmut.py --list"""
import os, shutil, subprocess, sys, tempfile

M = {
 "c02_no_future_wait": ("rex/asynchronous.py", "            has_ts_in_future = self.input_node._clock in [Clock.WALL_CLOCK] or any(ts > ts_step for seq, ts in self.q_ts_input)", "            has_ts_in_future = True", ["C02"]),
 "c03_window_head": ("rex/asynchronous.py", "self.q_grouped.append(grouped[-self.connection.window :])", "self.q_grouped.append(grouped[: self.connection.window])", ["C03"]),
 "c03_skip_ge": ("rex/asynchronous.py", "if ts > ts_step or (self.connection.skip and ts == ts_step):", "if ts > ts_step:", ["C03"]),
 "c03_fifo_dropped": ("rex/asynchronous.py", "recv_sc = round(max(sent_sc + delay, self._prev_recv_sc), 6)", "recv_sc = round(sent_sc + delay, 6)", ["C03"]),
 "c04_no_drift": ("rex/asynchronous.py", "self._phase_scheduled += max(0, phase_last - phase_scheduled)", "self._phase_scheduled += 0.0", ["C04"]),
 "c04_phase_not_reset": ("rex/asynchronous.py", "            else:  # self.scheduling in [PHASE]\n                self._phase_scheduled = 0.0", "            else:  # self.scheduling in [PHASE]\n                self._phase_scheduled += max(0, phase_last - phase_scheduled)", ["C04"]),
 "c05_revert_must_reset": ("rex/asynchronous.py", "        self._synchronizer._must_reset = True\n", "", ["C05"]),
 "c05_eps_filter": ("rex/asynchronous.py", "        elif header.eps != self.input_node.eps:\n            self.log(\"push_ts_input (PREV EPS)\"", "        elif False:\n            self.log(\"push_ts_input (PREV EPS)\"", ["C05"]),
 "c06_double": ("rex/asynchronous.py", "        return new_step_state, output\n\n    def async_step", "        return self.async_step(step_state)\n\n    def async_step", ["C06"]),
 "c07_window_lt": ("rex/utils.py", "idx = jnp.argwhere(reversed_seq_in <= _seq, size=1, fill_value=-1)[0, 0]", "idx = jnp.argwhere(reversed_seq_in < _seq, size=1, fill_value=-1)[0, 0]", ["C07", "C01"]),
 "c07_nonancestor_lt": ("rex/utils.py", "if n_non[\"ts_end\"] <= G.nodes[n_sup][\"ts_start\"]:", "if n_non[\"ts_end\"] < G.nodes[n_sup][\"ts_start\"]:", ["C07"]),
 "c08_no_plus1": ("rex/base.py", "                max_s = s.max() + 1\n", "                max_s = max(s.max(), 1)\n", ["C08"]),
 "c08_write_shift": ("rex/partition_runner.py", "    mod_seq = seq % size\n    # new_buffer", "    mod_seq = (seq + 1) % size\n    # new_buffer", ["C08", "C01"]),
 "c09_step_wrap": ("rex/base.py", "        step = jnp.clip(step, onp.int32(0), max_step - 1)", "        step = step % max_step", ["C09"]),
 "c09_override_ignored": ("rex/graph.py", "                    _new_ss, _new_output = step_state, output\n                _new_output_record", "                    _new_ss, _new_output = supervisor.step(noop_ss)\n                _new_output_record", ["C09", "C06"]),
 "c10_idx_min": ("rex/base.py", "            idx_min = idx_max - window\n            tb = [input.seq, input.ts_sent, ts_recv, input.data]\n            slice_sizes", "            idx_min = idx_max - window - 1\n            tb = [input.seq, input.ts_sent, ts_recv, input.data]\n            slice_sizes", ["C10"]),
 "c10_alpha_unclipped": ("rex/base.py", "        return jnp.clip(self._get_alpha(delay, self.min, self.max), 0.0, 1.0)", "        return self._get_alpha(delay, self.min, self.max)", ["C10"]),
 "c13_record_at_seq1": ("rex/partition_runner.py", "lambda _b, _o: jnp.array(_b).at[timings_node.seq].set(jnp.array(_o)), steps, new_step_record", "lambda _b, _o: jnp.array(_b).at[timings_node.seq + 1].set(jnp.array(_o)), steps, new_step_record", ["C13"]),
 "c13_async_rng_after": ("rex/asynchronous.py", "                rng=step_state.rng if self.record_setting[\"rng\"] else None,\n                inputs=inputs if", "                rng=jax.random.split(step_state.rng)[0] if self.record_setting[\"rng\"] else None,\n                inputs=inputs if", ["C13"]),
 "c14_pad_zero": ("rex/base.py", "_padded = tuple(onp.pad(arr, (0, _max_len - len(arr)), constant_values=-1) for arr in _graphs)", "_padded = tuple(onp.pad(arr, (0, _max_len - len(arr)), constant_values=0) for arr in _graphs)", ["C14", "C07"]),
 "c14_filter_extra_edge": ("rex/base.py", "                    for n1, _ in filter(lambda x: x[1] == n2, self.edges):\n                        if n1 in nodes:\n                            connections.add((n1, n2))", "                    for n1, _ in filter(lambda x: x[1] == n2, self.edges):\n                        connections.add((n1, n2))", ["C14"]),
}


def main():
    if sys.argv[1] == "--list":
        for k, v in M.items():
            print(k, v[0], v[3])
        return
    name = sys.argv[1]
    f, old, new, checks = M[name]
    checks = sys.argv[2:] or checks
    mut = tempfile.mkdtemp(prefix=f"mut-{name}-", dir="/tmp")
    try:
        subprocess.run(f"git -C /repo archive HEAD | tar -x -C {mut}", shell=True, check=True)
        p = os.path.join(mut, f)
        s = open(p).read()
        assert s.count(old) == 1, f"{name}: pattern occurs {s.count(old)} times"
        open(p, "w").write(s.replace(old, new))
        for c in checks:
            r = subprocess.run(f"cd /verif && VERIF_REPO={mut} ./check {c} --tier quick 2>/dev/null | grep -E '^VIOLATION|^\\[C|^HARNESS' | cut -c1-200 | head -4", shell=True, capture_output=True, text=True)
            lines = r.stdout.strip().splitlines()
            verdict = "CAUGHT" if any(l.startswith("VIOLATION") for l in lines) else ("HARNESS-ERROR" if any(l.startswith("HARNESS") for l in lines) else "MISSED")
            print(f"{name} {c}: {verdict}")
            for l in lines[:3]:
                print("    ", l)
    finally:
        shutil.rmtree(mut, ignore_errors=True)


if __name__ == "__main__":
    main()
