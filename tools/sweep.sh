#!/bin/bash
# usage: tools/sweep.sh "<seeds>" "<checks>" [tier]   -- one verdict line per (seed, check)
cd "$(dirname "$0")/.."
for s in $1; do for c in $2; do
  st=$(date +%s)
  out=$(VERIF_SEED=$s ./check $c --tier "${3:-quick}" 2>/dev/null | grep -E "^VIOLATION|^\[C[0-9]+\]|^HARNESS" | cut -c1-220 | tr '\n' ' ')
  echo "seed=$s $c exit=$? wall=$(( $(date +%s) - st ))s :: $out"
done; done
