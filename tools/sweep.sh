#!/bin/bash
# usage: tools/sweep.sh "<seeds>" "<checks>" [tier]   -- one verdict line per (seed, check); exit= is the check's own status
cd "$(dirname "$0")/.."
T=$(mktemp)
for s in $1; do for c in $2; do
  st=$(date +%s)
  VERIF_SEED=$s ./check $c --tier "${3:-quick}" >"$T" 2>/dev/null; rc=$?
  out=$(grep -E "^VIOLATION|^\[C[0-9]+\]|^HARNESS" "$T" | cut -c1-220 | tr '\n' ' ')
  echo "seed=$s $c exit=$rc wall=$(( $(date +%s) - st ))s :: $out"
done; done
rm -f "$T"
