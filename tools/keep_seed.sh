#!/bin/bash
# usage: tools/keep_seed.sh <seed_dir> <seed id e.g. C03-2> <property> "<needs>" "<caught by>"
# Confirms in a scratch copy (outside /repo and /verif): patch applies, demo fails with / passes without, the repository's
# own test suite (pinned command) still passes with the change; then stores patch.diff, demo and meta.json under /verif/seeded/<id>/.
set -u
SD="$1"; ID="$2"; PROP="$3"; NEEDS="$4"; CAUGHT="$5"
MUT=/tmp/keep-$$-$ID; rm -rf "$MUT"; mkdir -p "$MUT"
git -C /repo archive HEAD | tar -x -C "$MUT"
(cd "$MUT" && git init -q . && git apply --whitespace=nowarn "$SD/patch.diff") || { echo "APPLY FAILED"; rm -rf "$MUT"; exit 3; }
REL="_seed/$(basename "$SD")"; mkdir -p "$MUT/_seed"; cp "$(dirname "$SD")"/*.py "$MUT/_seed/" 2>/dev/null; cp -r "$SD" "$MUT/$REL"
DEMO=$(ls "$MUT/$REL"/demo.py "$MUT/$REL"/test_demo.py 2>/dev/null | head -1)
RUN=""; [[ "$DEMO" == *test_demo.py ]] && RUN="-m pytest -q -p no:cacheprovider -x"
(cd "$MUT" && PYTHONPATH="$MUT" JAX_PLATFORMS=cpu timeout 900 /venv/bin/python $RUN "$DEMO" >/tmp/keep_demo_mut.out 2>&1); a=$?
CLEAN=/tmp/keepclean-$$; rm -rf "$CLEAN"; mkdir -p "$CLEAN"; git -C /repo archive HEAD | tar -x -C "$CLEAN"; mkdir -p "$CLEAN/_seed"; cp "$(dirname "$SD")"/*.py "$CLEAN/_seed/" 2>/dev/null; cp -r "$SD" "$CLEAN/$REL"
(cd "$CLEAN" && PYTHONPATH="$CLEAN" JAX_PLATFORMS=cpu timeout 900 /venv/bin/python $RUN "$CLEAN/$REL/$(basename "$DEMO")" >/tmp/keep_demo_clean.out 2>&1); b=$?
rm -rf "$CLEAN"
# the repository's own suite on the changed tree (xdist only to save wall time)
(cd "$MUT" && PYTHONPATH="$MUT" JAX_PLATFORMS=cpu timeout 3500 /venv/bin/python -m pytest -q -p no:cacheprovider --timeout=900 --continue-on-collection-errors -n 4 tests/unit 2>&1 | tail -8 > /tmp/keep_tests.out)
SUMMARY=$(grep -E "passed|failed" /tmp/keep_tests.out | tail -1)
FAILED=$(grep -E "^FAILED" /tmp/keep_tests.out | grep -v -E "test_same_structure|test_chain|test_extend" | wc -l)
rm -rf "$MUT"
echo "$ID demo: with=$a clean=$b tests: $SUMMARY unexpected_failures=$FAILED"
if [ "$a" != "0" ] && [ "$b" == "0" ] && [ "$FAILED" == "0" ]; then
  D=/verif/seeded/$ID; mkdir -p "$D"; cp "$SD/patch.diff" "$D/"; cp "$SD"/demo.py "$SD"/test_demo.py "$D/" 2>/dev/null; cp "$(dirname "$SD")"/harness.py "$D/" 2>/dev/null; cp "$SD/notes.md" "$D/" 2>/dev/null
  /venv/bin/python - "$D" "$ID" "$PROP" "$NEEDS" "$CAUGHT" "$SUMMARY" "$a" "$b" <<'PY'
import json, sys
d, sid, prop, needs, caught, summary, a, b = sys.argv[1:9]
json.dump(dict(id=sid, breaks_property=prop, needs_to_manifest=needs, caught_by=caught,
               confirmed=dict(patch_applies_to="/repo HEAD (scratch copy under /tmp, removed)", demo_exit_with_change=int(a), demo_exit_clean=int(b),
                              repo_tests_with_change=summary + " (known always-failing: test_same_structure, test_chain, test_extend)"),
               ran=["git apply patch.diff in a scratch copy", "demo with/without", "pytest tests/unit -n 4 on the changed copy", "VERIF_REPO=<copy> ./check <property> --tier quick (see caught_by)"]),
          open(d + "/meta.json", "w"), indent=1)
PY
  echo "  kept -> $D"
else
  echo "  NOT kept"
fi
