#!/bin/bash
# usage: tools/eval_seed.sh <seed_dir containing patch.diff and demo.py|test_demo.py> <CHECKS...>
# Applies the patch to a scratch copy of /repo (outside /repo and /verif), runs the demo with/without, the listed checks
# (quick tier) against the copy, and removes the copy. Prints one summary line per step.
set -u
SD="$1"; shift
MUT=/tmp/mut-$$-$(basename "$SD")
rm -rf "$MUT"; mkdir -p "$MUT"
git -C /repo archive HEAD | tar -x -C "$MUT"
cd "$MUT" && git init -q . >/dev/null 2>&1
if ! git apply --whitespace=nowarn "$SD/patch.diff" 2>/tmp/apply.err; then
  if ! patch -p1 -s < "$SD/patch.diff" 2>>/tmp/apply.err; then echo "APPLY-FAILED $(head -3 /tmp/apply.err)"; rm -rf "$MUT"; exit 3; fi
fi
echo "applied: $(grep -c '^[-+][^-+]' "$SD/patch.diff") changed lines in $(grep -c '^diff' "$SD/patch.diff") file(s)"
# the demo runs from the same relative place inside the mutated tree (many demos derive the library root from __file__)
REL="_seed/$(basename "$SD")"
mkdir -p "$MUT/_seed"; cp -r "$(dirname "$SD")"/*.py "$MUT/_seed/" 2>/dev/null; cp -r "$SD" "$MUT/$REL"
DEMO=$(ls "$MUT/$REL"/demo.py "$MUT/$REL"/test_demo.py 2>/dev/null | head -1)
if [ -n "$DEMO" ]; then
  if [[ "$DEMO" == *test_demo.py ]]; then RUN="-m pytest -q -p no:cacheprovider -x"; else RUN=""; fi
  (cd "$MUT" && PYTHONPATH="$MUT" JAX_PLATFORMS=cpu timeout 900 /venv/bin/python $RUN "$DEMO" >/tmp/demo_mut.out 2>&1); a=$?
  CLEAN=/tmp/clean-$$; rm -rf "$CLEAN"; mkdir -p "$CLEAN"; git -C /repo archive HEAD | tar -x -C "$CLEAN"; mkdir -p "$CLEAN/_seed"; cp -r "$(dirname "$SD")"/*.py "$CLEAN/_seed/" 2>/dev/null; cp -r "$SD" "$CLEAN/$REL"
  (cd "$CLEAN" && PYTHONPATH="$CLEAN" JAX_PLATFORMS=cpu timeout 900 /venv/bin/python $RUN "$CLEAN/$REL/$(basename "$DEMO")" >/tmp/demo_clean.out 2>&1); b=$?
  rm -rf "$CLEAN"
  echo "demo: with-change exit=$a  clean exit=$b"
fi
if [ "${RUN_TESTS:-0}" != "0" ]; then
  (cd "$MUT" && PYTHONPATH="$MUT" JAX_PLATFORMS=cpu timeout 3000 /venv/bin/python -m pytest -q -p no:cacheprovider --timeout=900 -x ${RUN_TESTS} 2>&1 | tail -2 | tr '\n' ' '); echo
fi
cd /verif
for c in "$@"; do
  start=$(date +%s)
  VERIF_REPO="$MUT" ./check "$c" --tier "${TIER:-quick}" 2>/tmp/eval_$c.err | grep -E "^VIOLATION|^\[C[0-9]+\]|^HARNESS|^KNOWN" | cut -c1-260 | head -6
  echo "  -> $c exit=${PIPESTATUS[0]} wall=$(( $(date +%s) - start ))s"
done
rm -rf "$MUT"
