import json
checks = []
def chk(pid, text, note, technique, design):
    checks.append(dict(property_id=pid, quick_cmd=f"./check {pid} --tier quick", thorough_cmd=f"./check {pid} --tier thorough",
        evidence_file=f"/verif/evidence/{pid}.json", replay_cmd_template=f"./check {pid} --replay {{path}}", engine="E1" if pid in ("C02","C03","C04","C05","C06") else "E2",
        level_claimed=dict(category="model_checking", text=text, design_ref=design), level_note=note, technique=technique))
import sys
sys.path.insert(0, "/verif")
from manifest_entries import ENTRIES, NOT_APPLICABLE
for e in sorted(ENTRIES): chk(*e)
m = dict(version=1,
  setup_cmd="cd /verif && /venv/bin/python -c \"import sys; sys.path.insert(0,'/verif'); import vf.common\"",
  hooks=dict(guard="REX_VERIF", enable="none needed: the controlled scheduler replaces rex.asynchronous' module-level concurrency primitives from outside (vf/sched.py: patch_rex_async); checks import rex from /repo's working tree (VERIF_REPO overrides)", baseline_off_cmd="cd /repo && /venv/bin/python -m pytest -ra -q -p no:cacheprovider --timeout=900 --continue-on-collection-errors", source_commits=[], add_only=True),
  engines=[dict(name="E1", path="vf/sched.py vf/explore.py vf/asyncx.py", serves_properties=["C02","C03","C04","C05","C06","C13"], kind_free_text="stateless model checking of the implementation: real rex.asynchronous handlers on real threads serialised by a baton scheduler; all schedules within d deviations of three base policies"),
           dict(name="E2", path="vf/ref*.py vf/props/*.py", serves_properties=["C01","C07","C08","C09","C10","C11","C12","C13","C14","C15","C16","C17","C18","C19","C20"], kind_free_text="bounded-exhaustive enumeration of finite families / operation histories on the real code against plain-Python reference models")],
  checks=checks, not_applicable=NOT_APPLICABLE,
  notes="See DESIGN.md. Exit 2 + HARNESS-ERROR means the machinery failed (never a pass).")
json.dump(m, open("/verif/MANIFEST.json","w"), indent=1)
print(len(checks), "checks")
