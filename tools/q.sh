#!/bin/bash
# usage: tools/q.sh C05 [quick|thorough]  -- run a check, show only the verdict lines
cd /verif
start=$(date +%s)
./check "$1" --tier "${2:-quick}" 2>/tmp/q_$1.err | grep -E "^VIOLATION|^  what:|^\[C[0-9]+\]|^HARNESS|^KNOWN" | cut -c1-${3:-500} | head -${4:-24}
echo "exit=${PIPESTATUS[0]} wall=$(( $(date +%s) - start ))s"
grep -v -E "Growing supergraph|C-API|RuntimeWarning|warnings.warn|xla_bridge|plugin|xla_client|\^\^\^|AttributeError: module|discover_pjrt|initialize\(\)|^Traceback|^$" /tmp/q_$1.err | tail -5
